"""Demonstration (against /repo before bdfd25f): a legal Doerfler call fails.
PYTHONPATH=<repo> python demo.py -> AssertionError at mesh.py:354 before the fix, prints ok after."""
import math
import numpy as np
from src.mesh import Mesh
m = Mesh(initial_time_mesh=[0, 1], initial_space_mesh=[0, 1, 2, 3, 4, 5])
m.dorfler_refine_isotropic(np.array([0, 3, 4, 4, 4.]), math.sqrt(4 / 5))
print("ok", len(m.leaf_elements))
