#!/bin/bash
# Offline setup: nothing to build (pure Python + TLA+); verify the tools and parse all modules.
set -e
cd "$(dirname "$0")/.."
mkdir -p .scratch evidence replays
java -version 2>&1 | head -1
test -f /opt/veriftools/tla/tla2tools.jar
/venv/bin/python -c "import numpy, scipy, mpmath; print('python deps ok')"
PYTHONPATH=/verif /venv/bin/python - <<'PY'
import glob, sys, os, shutil, tempfile
from harness import tlc
bad = 0
work = tempfile.mkdtemp(prefix="sany.", dir="/verif/.scratch")
for d in ("/verif/spec", "/verif/spec/trace"):
    for f in glob.glob(d + "/*.tla"):
        shutil.copy(f, work)
from harness import rules_lib as rl
open(os.path.join(work, "RulesData.tla"), "w").write(rl.rules_data_tla(*rl.extract()))
for f in sorted(glob.glob(work + "/*.tla")):
    ok, out = tlc.sany(f)
    print("SANY", os.path.basename(f), "ok" if ok else "FAILED")
    if not ok:
        bad += 1
        print(out[-2000:])
shutil.rmtree(work, ignore_errors=True)
sys.exit(1 if bad else 0)
PY
