#!/venv/bin/python
"""Writes /verif/MANIFEST.json from the table below (single source of truth for the interface)."""
import json
import os

ROOT = os.path.dirname(os.path.dirname(os.path.abspath(__file__)))

CHECKS = {
 "C02": dict(level="model_checking", design="§5 C02", engine="stmesh",
   technique="TLC model checking of STMesh.tla + bounded bisimulation with the real Mesh + TLC-judged traces",
   text="Every mesh state reachable within a primitive-bisection budget on nine root layouts is enumerated by TLC "
        "(all invariants: tiling, dyadic descent, 1-irregularity, code-shaped closure = least closure, compound "
        "operations never fail) and the dumped state graph is compared state-for-state and edge-for-edge with the graph "
        "of the real Mesh driven through the same operations; bookkeeping measured on every real state and long random "
        "histories are judged by TLC (TraceSTMesh).",
   note="Bounded: budgets per layout are listed in the evidence; beyond them random histories. Trusted: TLC, the "
        "projection (dyadic descent by the code's own midpoint rule), Python's fractions."),
 "C10": dict(level="model_checking", design="§5 C10", engine="stmesh",
   technique="TLC model checking of STMesh.tla (NbrAcross) + TLC-judged neighbour lists of every real state",
   text="For every state of the same exhaustive graphs as C02 the neighbour lists reported by every edge of every leaf "
        "of the real mesh, the boundary/glue flags and the at-most-two / symmetric / non-empty clauses are recorded and "
        "judged by TLC against the geometric neighbour rule of STMesh.tla; long random histories likewise.",
   note="Bounded as C02. Trusted: TLC, the projection."),
 "C06": dict(level="model_checking", design="§5 C06", engine="stmesh",
   technique="TLC model checking of Dorfler.tla (marking loop) and of the Doerfler actions of STMesh.tla + replay of every model state into the real mesh + TLC-judged traces",
   text="Dorfler.tla enumerates every integer indicator vector (0..3 on 4 contributions, six values of theta^2): loop == declarative shortest "
        "prefix, shortest, exists; every state is executed on two real meshes and the observed marked sets and resulting meshes are judged by TLC. "
        "STMesh's DorflerIso/DorflerAniso are explored from every mesh within a budget for all marked pairs (|Mt|+|Ms|<=3): sequential level-sorted "
        "loops == declarative double closure, no assertion reachable, for every processing order of equally ranked elements (DorflerAnyOrder), "
        "and the graph equals the real graph. Random interleaved histories judged by TraceSTMesh.",
   note="Indicators are small integers (exact in double); theta-knife-edges for non-dyadic theta excluded and counted; all-zero vector accepted either way. Trusted: TLC, projection, runtime wrapper observing top-level refine_axis calls."),
 "C19": dict(level="model_checking", design="§5 C19", engine="stmesh",
   technique="TLC model checking of STMesh.Grade (code-shaped sweep loop) + graph equality with real refine_grading + TLC-judged graded meshes",
   text="From every mesh within a primitive-bisection budget on five root layouts and sigma in {1, 1.5, 2}: STMesh.Grade terminates with all leaves "
        "in the integer window, only refines, invariants hold; graph (including the graded meshes) equals the real graph; graded real meshes after "
        "random histories (uniform and non-uniform root grids) are judged by TLC (window with per-root thresholds, tiling, 1-irregularity).",
   note="Window tests in integer form with thresholds computed at 50 digits; graded meshes above a leaf cap dropped and counted. Trusted: TLC, projection, mpmath."),
 "C16": dict(level="model_checking", design="§5 C16", engine="quadtree",
   technique="TLC model checking of QuadTree.tla (code-shaped balance recursion, boundary targeting) + bounded bisimulation with the real InitialMesh + TLC-judged traces",
   text="All sequences of refine / uniform_refine / refine_msh_bdr within a subdivision budget on unit square, pi square and L-shape, and every boundary "
        "segment [k/2^l,(k+1)/2^l] of every unit piece up to SegMaxL (both orientations; end points as tuples, lists, 2x1 arrays): TLC checks tiling, 2:1 balance, "
        "refine == least balanced closure, targeting post-conditions (exactly one leaf with the segment as an edge, end points are corners, touching cells have an "
        "end point as corner); the dumped graph equals the real graph; every real state (tiling, balance, vertex uniqueness, levels) and every targeting call "
        "(returned cell, vertex_from_coords) is judged by TLC; random histories with deep segments (l <= 10).",
   note="refine_msh_bdr only for segments contained in an edge of a current leaf (precondition, found by TLC); uniform_refine only on level-uniform meshes. Trusted: TLC, projection by the code's midpoint rule."),
 "C18": dict(level="exploration", design="§5 C18", engine="paraminit",
   technique="TLC enumeration of ParamInit.tla / Polygon.tla configurations, each constructed with the real code; results judged by TLC (TraceParamInit, Judge)",
   text="ParamInit.tla is model-checked per curve shape (all time grids with 1..6 slabs x all space grids made of the break points plus any subset of piece mid points): "
        "PieceOK, MinThree, TouchOnce, TilesSlab; every configuration is built with the real MeshParametrized and the real leaves (slab, interval, piece carried) are judged "
        "by TLC, also after random refinements. Polygon.tla enumerates rectilinear lattice polygons for the constructor. Geometry (arc length, piece lengths, continuity, closure, "
        "eval == containing piece) is measured against exact segment geometry and judged by the generic TLC judge with a class-coverage postcondition.",
   note="Exploration: space grids are break points + mid points only; geometry at random parameters per piece; tolerance 1e-12. Trusted: TLC, NumPy norms, sin for circle chords."),
 "C17": dict(level="model_checking", design="§5 C17", engine="assembly",
   technique="TLC model checking of Assembly.tla (paths, pool interleavings, crash points, file faults) + TLC-simulated behaviours executed on real files and real pools, judged by TraceAssembly",
   text="Assembly.tla is explored exhaustively (matrix variant with the inline path, vector variant without; up to 3 calls over 2-3 inputs, use_mp, worker sets, every "
        "interleaving of pool workers, crash inside the store with every damage class, truncation to every byte class and deletion between calls): Transparent, NoSharing, "
        "InlineNoFile, BigStepAgrees, CallsTerminate (fair). Behaviours simulated from the same module and fixed fault histories run against the real bilform_matrix / "
        "linform_vector with a real cache directory, really damaged files and real pools (cpu_count 1..16); each returned array is compared bitwise with entry-by-entry "
        "evaluation and the recorded history is judged by TLC.",
   note="OS scheduling of workers not controlled (model covers interleavings; implementation run over worker counts/chunkings). Crash realised as damage-after-store + discarded result. Trusted: TLC, NumPy's .npy reader for the file projection."),
 "C01": dict(level="exploration", design="§5 C01", engine="panels",
   technique="TLC enumeration and model checking of Panels.tla (panel recursion) + class-stratified replay into bilform against an independent reference integrator, judged by TLC (TracePanels) with class coverage",
   text="Panels.tla is checked for every ordered pair of dyadic elements per curve shape (recursion terminates, no assertion reachable, terminal panels tile, every singular point "
        "lies where the chosen rule is graded, closed-form dispatcher exhaustive and tiling). Pairs are stratified by (space relation, Allen relation); members of every class are "
        "concretised by real bisection, evaluated on both paths and compared with the reference in the property's metric; TLC recomputes the class, judges the deviation, compares "
        "the recorded panel decomposition with the model's (diagnostic) and demands every class was exercised.",
   note="Exploration: per-class samples, aspect <= 32, dyadic levels as listed in the evidence. Trusted: reference integrator (self-checked against published constants and a second grading), scipy.special.exp1."),
 "C04": dict(level="exploration", design="§5 C04", engine="panels",
   technique="TLC enumeration of Panels.tla pairs (all 13 Allen relations x space classes); TLC decides acausality from the integer end points and judges zero / sign flags of six observation channels",
   text="For members of every (space relation, Allen relation) class on every curve the value of bilform (both switch values), of bilform_matrix (inline, serial, pool) and of "
        "evaluate / evaluate_exact / potential at the five time positions relative to the trial element is recorded with exact-zero, sign and positivity flags; TLC recomputes "
        "Acausal from the integers and demands acausal => == 0.0, causal => >= -1e-15*scale and > 0 when the reference exceeds 1e-250; whole-mesh zero patterns (rows = test, columns = trial) "
        "are compared entry by entry for all three matrix paths.",
   note="Exploration per class; reference only for the positivity clause. Trusted: reference integrator for scale/positivity."),
 "C11": dict(level="exploration", design="§5 C11", engine="panels",
   technique="TLC-checked split kinds of Panels.tla (SplitTiles) + class-stratified sums over real children / virtual quarters judged by TLC",
   text="For causal pairs of every class and the 15 combinations of split kinds the sum of bilform over the pieces (children obtained by real bisection and as DummyElement quarters, "
        "both paths) is compared with the unsplit entry in the metric 1e-7*sqrt(D D); TLC verifies the pieces are exactly SplitPieces of the model, the class label and the deviation, and class coverage.",
   note="Self-consistency; scale from the reference diagonal entries. Aspect <= 16 before splitting so that time halves stay <= 32."),
 "C12": dict(level="exploration", design="§5 C12", engine="panels",
   technique="TLC-defined group actions of Panels.tla (Exchange, ShiftT, RotX, ReflX) + bitwise / tolerance comparison of bilform on moved pairs judged by TLC",
   text="For causal pairs of every class: exchange of the space intervals and dyadic common time shifts must reproduce bilform bit for bit; quarter turns and the reflection of the squares, dyadic "
        "rotations and the reflection of the circle must reproduce it within 1e-7*sqrt(D D), including moves that change the space class (across the seam, onto another side). TLC recomputes the moved pair.",
   note="Moved elements concretised by real bisection; L-shape only exchange and shift. No oracle beyond the diagonal scale."),
 "C13": dict(level="exploration", design="§5 C13", engine="stmesh",
   technique="every STMesh.tla state within a budget (TLC dump) rebuilt as a real mesh, assembled, eigvalsh of the scaled symmetric part; threshold judged by TLC (Judge.tla)",
   text="STMesh supplies every mesh reachable within a primitive-bisection budget from each closed curve's initial mesh (not a sample); each is rebuilt by real bisections, assembled with "
        "bilform_matrix and lambda_min(D^-1/2 (A+A^T)/2 D^-1/2) is quantised; TLC demands > 0.01 for every mesh, for the 4x4 child blocks of the hierarchical estimator and for larger random meshes.",
   note="Exhaustive within the listed budgets (flagged if capped). Trusted: numpy.linalg.eigvalsh."),
 "C05": dict(level="exploration", design="§5 C05", engine="rules",
   technique="registry extracted from the source text into RulesData.tla; Rules.tla facts model-checked by TLC; every obligation <<family,key,part,degree>> measured at 80 digits / in double and judged by TLC (TraceRules) with TLC-computed completeness",
   text="The if/elif chains of the seven rule functions and the exported key lists are extracted with Python's ast on every run into RulesData.tla; TLC checks that every key returns, node and weight counts "
        "match, every exported pair is available and every constructor request lands on a returning key; the obligations defined by Rules.tla (all monomial degrees of every advertised part of every rule) are "
        "measured on the literals as written (1e-30) and on the returned doubles (1e-13) together with nodes-in-(0,1) / one-sign flags; TLC judges each record and lists obligations never exercised. The space is finite and enumerated completely.",
   note="80-digit mpmath arithmetic instead of interval arithmetic (rounding ~1e-78). Known findings: literals of gauss_log keys 15 and 31."),
 "C15": dict(level="exploration", design="§5 C15", engine="rules",
   technique="term language and degree calculus of Schemes.tla enumerated by TLC; every term built with the real constructors and every monomial up to the calculus' degree judged by TLC (TraceSchemes)",
   text="Schemes.tla enumerates all derived-scheme terms (mirror, tensor products, 2-D Duffy symmetric/non-symmetric, 3-D identical/touch Duffy, mirrors in every coordinate) over the base rules with deg(Product)=min, "
        "deg(Duffy2)=deg-1, deg(Duffy3)=deg-2; each term is built, mapped to a random box with side lengths in [1e-4,1e3], its weight sum and every monomial of admissible total degree compared with the exact value; "
        "TLC recomputes dimension/degree from the term, judges deviations and counts unexercised (term, monomial) pairs; laws mirror-twice, symmetric-vs-non-symmetric, convergence on log|x-y|.",
   note="Measure clause read for terms of degree >= 0 (constants are polynomials of degree 0). Quick tier uses a subset of base rules; thorough all unweighted tabulated rules."),
 "C14": dict(level="exploration", design="§5 C14", engine="rules",
   technique="orders/keys from Rules.tla; exact rational closed forms for polynomial Slobodeckij integrals; records judged by TLC (TraceSlobo) with TLC-computed case coverage",
   text="For every order 1..23 (H^{1/4}) and 1..21 (H^{1/2}) and every degree <= (N-1)/2, random rational polynomials on random intervals (1e-3..1e3) are compared with exact closed forms (1e-12); laws "
        "non-negativity, zero on constants, quadratic scaling, translation invariance; curve-aware == flat on rigid placements; the corner configuration against a graded reference. TLC computes which orders "
        "exist from the extracted registry and reports cases never exercised.",
   note="Polynomials given in the interval's affine coordinate (conditioning). Corner clause at order 21, right angles, length ratio <= 2, tolerance 1e-9 (spectral convergence)."),
 "C07": dict(level="exploration", design="§5 C07", engine="panels",
   technique="TLC (TraceEval over Panels.tla) derives position class, tolerance and evaluate-branch from integer coordinates and judges relative errors against an independent 1-D reference; coverage of (position, time, branch) cells",
   text="For trial elements of every curve, times before/at/inside/at the end/after the element (parabolic ratio <= 16) and points at end points, inside, in the thin near layer, >= 1% outside, across corners and the seam, "
        "evaluate (and evaluate_vector) and evaluate_exact on straight sides are compared with a reference (analytic time integral, graded Gauss towards the foot point). TLC computes the seam-aware distance class and "
        "grants 1e-8 / 2e-3 / 5e-4 (1e-7 for the closed-form variant), demands exact zero for acausal times and reports (position, time, branch) cells never reached; integral identity on the diagonal.",
   note="Interior points kept > 1.5e-5 from end points (documented precondition). Integral identity only for test = trial (tolerance 2e-4)."),
 "C09": dict(level="exploration", design="§5 C09", engine="estimators",
   technique="Estimators.tla (patch structure, shortcut == direct) model-checked on STMesh states; real indicators vs geometric definition with separable residuals judged by TLC (Judge.tla); recorded seminorm arguments vs model patches",
   text="Estimators.tla is checked on every reachable glued mesh within a budget: patches are contiguous unions through the shared side (seam included), the neighbour-symmetry shortcut equals the direct sum, no self "
        "neighbours. On refined two-slab meshes of the four closed curves every element's space/time/weighted-L2 indicator is compared with an independent evaluation on the geometric patch (exact rational "
        "H^{1/4}, polynomial H^{1/2}, graded reference with Euclidean distances; order 17, 1e-4; polynomial residuals 1e-8), plus serial == pool bitwise, shortcut == direct, rotation invariance; judged by TLC with class coverage.",
   note="Residuals separable p(t) g(gamma(x)). Trusted: reference integrals (Gauss-Legendre on analytic integrands, graded at corners)."),
 "C08": dict(level="exploration", design="§5 C08", engine="quadtree",
   technique="QuadTree.tla post-conditions of boundary targeting (cell classification used by linform) + load vectors vs re-derived closed-form potentials, judged by TLC (Judge.tla) with class coverage",
   text="QuadTree.tla guarantees exactly one identical cell and that touching cells have a segment end point as a corner; on the dyadic family of every unit piece of the three polygonal domains (time intervals starting "
        "at 0 and later, aspect <= 32) linform is compared with the element integral of independently derived closed-form heat extensions (u0 = 1, sine product: 1e-5; x, sin(x) y, random quadratics: 1e-6), "
        "linearity, additivity under time/space/quarter splitting, and the pointwise domain evaluation for t >= 0.05 side^2 (1e-5).",
   note="Closed forms (Gaussian moments, complex erf) are trusted after an mpmath self-check; element integrals by graded tensor Gauss."),
 "C20": dict(level="exploration", design="§5 C20", engine="estimators",
   technique="Estimators.tla (quarter order == refine == repeat order, sign patterns) model-checked; generic-atom conformance and numerical equality with the definition judged by TLC (TraceEstim)",
   text="TLC checks on STMesh states that the virtual quarters equal the rectangles of real `refine` and that the three sign patterns are what their names say, and verifies the harness's child order/signs "
        "against the model. With matrices, load vectors and densities replaced by pseudo-random atoms keyed by element geometry, both real estimators must reproduce the model's formula; numerically both are "
        "compared (1e-7) with an independent computation on a replayed copy refined by real bisection and assembled pair by pair (Dirichlet data on four curves, initial data on the unit square); vanishing, "
        "non-negativity, pool == serial, Prolongate.",
   note="One random mesh per curve per run. Trusted: numpy.linalg.solve."),
 "C03": dict(level="exploration", design="§5 C03", engine="adaptiveloop",
   technique="AdaptiveLoop.tla (driver protocol, observable steps, configuration table) and Sessions.tla (working directory shared by several runs) model-checked; unmodified example.py run to its first residual, for complete iterations and in multi-run sessions, the driver's entry points on refined meshes, for all 24 accepted combinations; per-leaf orthogonality and protocol judged by TLC (TraceLoop)",
   text="For every accepted (problem, domain) and both values of the straight-panel switch the unmodified example.py is run under runpy to its first residual and the driver's own lines are executed on randomly refined meshes; "
        "mat @ Phi = rhs is checked and for every leaf |int r| <= 5e-5 int |r| + 1e-12 with an independent graded tensor rule whose break points are the mesh lines crossing the leaf; TLC validates the phase events "
        "against the protocol, judges every leaf record and demands all 24 combinations. Complete iterations of the driver (uniform / isotropic / anisotropic, with and without grading) must show exactly the "
        "observable steps ExpectedIter(cfg) of AdaptiveLoop.tla, with orthogonality judged on every mesh the driver produces; two-run and five-run sessions from one working directory must load exactly the files "
        "Sessions.tla says (and stay orthogonal); the residual is also evaluated with its quadrature nodes in descending and shuffled order.",
   note="Meshes up to ~25 leaves in the quick tier (thorough: up to 4 driver iterations, 24 random refinements). Trusted: the graded element integrator."),
}

NOT_YET = {}

def main():
    props = [json.loads(l) for l in open(os.path.join(ROOT, "properties.jsonl"))]
    checks = []
    for p in props:
        pid = p["id"]
        if pid not in CHECKS:
            continue
        c = CHECKS[pid]
        checks.append({
            "property_id": pid,
            "quick_cmd": "./check %s --tier quick" % pid,
            "thorough_cmd": "./check %s --tier thorough" % pid,
            "evidence_file": "/verif/evidence/%s.json" % pid,
            "replay_cmd_template": "./check %s --replay {path}" % pid,
            "engine": c["engine"],
            "level_claimed": {"category": c["level"], "text": c["text"], "design_ref": c["design"]},
            "level_note": c["note"],
            "technique": c["technique"],
        })
    na = [{"property_id": p["id"], "reason": NOT_YET.get(p["id"], "check not built yet in this round (specification module planned in DESIGN.md §3; will be claimed when its check exists)")}
          for p in props if p["id"] not in CHECKS]
    man = {
        "version": 1,
        "setup_cmd": "./tools/setup.sh",
        "hooks": {
            "guard": "STBEM_VERIF_TRACE",
            "enable": "No source hooks: the checks import /repo's modules in their own process and wrap methods at run time (recorders active only when STBEM_VERIF_TRACE=1, which ./check sets).",
            "baseline_off_cmd": "cd /repo && /venv/bin/python -m pytest -ra -q -p no:cacheprovider --timeout=900 --continue-on-collection-errors",
            "source_commits": [],
            "add_only": True,
        },
        "engines": [
            {"name": "stmesh", "path": "/verif/spec/STMesh.tla", "serves_properties": ["C02", "C10", "C06", "C19", "C18"],
             "kind_free_text": "TLA+ specification of the space-time mesh; TLC exhaustive + trace judge (spec/trace/TraceSTMesh.tla)"},
            {"name": "panels", "path": "/verif/spec/Panels.tla", "serves_properties": ["C01", "C04", "C11", "C12", "C13", "C07"],
             "kind_free_text": "TLA+ skeleton of the single-layer operator (causality, panel recursion, classes); judge spec/trace/TracePanels.tla; oracle harness/oracles/heat_ref.py"},
            {"name": "rules", "path": "/verif/spec/Rules.tla", "serves_properties": ["C05", "C14", "C15"],
             "kind_free_text": "rule registry extracted from source (RulesData.tla), scheme algebra (Schemes.tla), judges TraceRules / TraceSchemes / TraceSlobo; oracles: mpmath moments, rational closed forms"},
            {"name": "estimators", "path": "/verif/spec/Estimators.tla", "serves_properties": ["C09", "C20"],
             "kind_free_text": "patch structure of the Sobolev estimator and child order / sign patterns of the two-level estimators on top of STMesh"},
            {"name": "adaptiveloop", "path": "/verif/spec/AdaptiveLoop.tla", "serves_properties": ["C03"],
             "kind_free_text": "protocol of the adaptive driver example.py (+ spec/Sessions.tla: several runs from one working directory); trace judge spec/trace/TraceLoop.tla; workers harness/c03_worker.py, harness/loop_worker.py"},
            {"name": "assembly", "path": "/verif/spec/Assembly.tla", "serves_properties": ["C17"],
             "kind_free_text": "TLA+ model of the assembly paths / pool / cache; behaviours replayed on real files and pools; judge spec/trace/TraceAssembly.tla"},
            {"name": "paraminit", "path": "/verif/spec/ParamInit.tla", "serves_properties": ["C18"],
             "kind_free_text": "TLA+ model of MeshParametrized.__init__ on abstract piecewise curves + Polygon.tla + generic numeric judge spec/trace/Judge.tla"},
            {"name": "quadtree", "path": "/verif/spec/QuadTree.tla", "serves_properties": ["C16", "C08"],
             "kind_free_text": "TLA+ specification of the domain quadtree; TLC exhaustive + trace judge (spec/trace/TraceQuadTree.tla)"},
        ],
        "checks": checks,
        "not_applicable": na,
        "notes": "All verdicts are TLC verdicts on spec/*.tla (model runs) or spec/trace/*.tla (recorded traces of the real code). See DESIGN.md.",
    }
    with open(os.path.join(ROOT, "MANIFEST.json"), "w") as fh:
        json.dump(man, fh, indent=1)
    print("MANIFEST.json: %d checks, %d not_applicable" % (len(checks), len(na)))

if __name__ == "__main__":
    main()
