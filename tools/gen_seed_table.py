#!/venv/bin/python
"""Regenerates the table of DESIGN.md section 13 from seeded/*/meta.json."""
import glob, json, os, re
p = '/verif/DESIGN.md'
s = open(p).read()
rows = []
for d in sorted(glob.glob('/verif/seeded/*')):
    m = json.load(open(os.path.join(d, 'meta.json')))
    c = m.get('confirmed_by_framework_author', {})
    rows.append('| %s | %s | %s | %s |' % (os.path.basename(d), m.get('property'), ', '.join(c.get('caught_by', [])), c.get('note', '').replace('|', '/')))
head = '| seed | property | caught by | what it needed / what was learned |\n|------|----------|-----------|-----------------------------------|\n'
i = s.index(head) + len(head)
j = s.index('\n\nPatterns in what was missed at first')
s = s[:i] + '\n'.join(rows) + s[j:]
open(p, 'w').write(s)
print(len(rows), 'seeds')
