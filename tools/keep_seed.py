#!/venv/bin/python
"""tools/keep_seed.py <seed dir> <name> <PROP> <caught_by comma list> <note>  -> /verif/seeded/<name>/"""
import json, os, shutil, sys
src, name, prop, caught, note = sys.argv[1:6]
dst = os.path.join("/verif/seeded", name)
os.makedirs(dst, exist_ok=True)
for f in ("patch.diff", "demo.py"):
    shutil.copy(os.path.join(src, f), os.path.join(dst, f))
try:
    meta = json.load(open(os.path.join(src, "meta.json")))
except Exception:
    meta = {}
meta["property"] = prop
meta["confirmed_by_framework_author"] = {
    "procedure": "tools/verify_seed.sh: clean tree demo exit 0; patch applied: full pytest run identical to the unmodified tree (48 passed incl. the 43 pinned tests; the 3 baseline failures and the collection error unchanged), demo exit != 0; checks run with STBEM_REPO=<patched scratch worktree>",
    "caught_by": [c for c in caught.split(",") if c],
    "note": note,
}
json.dump(meta, open(os.path.join(dst, "meta.json"), "w"), indent=1)
print("kept", dst)
