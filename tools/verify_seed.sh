#!/bin/bash
# tools/verify_seed.sh <worktree> <seed subdir> <PROP> [checks to run ...]
# Confirms a seeded change: clean tree -> demo passes; patch applied -> suite still 43 passed, demo fails;
# then runs the given checks (default: PROP) against the patched scratch worktree; finally reverts.
WT=$1; SD=$2; PROP=$3; shift 3; CHECKS=${@:-$PROP}
cd $WT || exit 2
git checkout -q -- . ; git checkout -q --detach $(git -C /repo rev-parse HEAD) 2>/dev/null; git status --short | grep -v '^??' && { echo "worktree dirty"; exit 2; }
echo "== clean demo"; PYTHONPATH=$WT timeout 900 /venv/bin/python $SD/demo.py > /tmp/vs_clean_$(basename $WT).log 2>&1; echo "exit $?"
git apply $SD/patch.diff || { echo "patch does not apply"; exit 2; }
echo "== patched suite"; timeout 1800 /venv/bin/python -m pytest -q -p no:cacheprovider --timeout=900 --continue-on-collection-errors 2>&1 | tail -1
echo "== patched demo"; PYTHONPATH=$WT timeout 900 /venv/bin/python $SD/demo.py > /tmp/vs_patched_$(basename $WT).log 2>&1; echo "exit $?"; tail -2 /tmp/vs_patched_$(basename $WT).log
for c in $CHECKS; do
  echo "== check $c (patched)"; (cd /verif && STBEM_REPO=$WT timeout 3000 ./check $c --tier quick 2>&1 | grep "VIOLATION\|KNOWN\|^OK\|MACHINERY\|what:" | head -6)
done
git checkout -q -- .
