import math, numpy as np, time
import src.initial_mesh as im
_isclose = math.isclose
def isclose(a,b,**k):
    return _isclose(float(np.asarray(a).reshape(-1)[0]) if np.ndim(a) else a, float(np.asarray(b).reshape(-1)[0]) if np.ndim(b) else b, **k)
im.isclose = isclose
from src.parametrization import UnitSquare, PiSquare, LShape
bad=[]; n=0
t0=time.time()
for gname, G, M in [('unit', UnitSquare, im.UnitSquare), ('pi', PiSquare, im.PiSquare), ('L', LShape, im.LShape)]:
    g = G()
    # unit pieces: split sides of length 2 (LShape) into unit pieces
    pieces=[]
    for i in range(len(g.pw_gamma)):
        a,b = g.pw_start[i], g.pw_start[i+1]
        unit = (b-a) if gname=='pi' else 1.0
        k = int(round((b-a)/unit))
        for j in range(k):
            pieces.append((i, a+j*unit, a+(j+1)*unit))
    for (i,a,b) in pieces:
        for l in range(0,7):
            for k in range(2**l):
                c = a + (b-a)*k/2**l; d = a+(b-a)*(k+1)/2**l
                for orient in (0,1):
                    v0 = g.pw_gamma[i](c); v1 = g.pw_gamma[i](d)
                    if orient: v0,v1 = v1,v0
                    n+=1
                    try:
                        mesh = M()
                        e = mesh.refine_msh_bdr(v0, v1)
                        w0 = mesh.vertex_from_coords(v0); w1 = mesh.vertex_from_coords(v1)
                        assert w0 is not None and w1 is not None
                        assert w0 in e.vertices and w1 in e.vertices
                        cnt = sum(1 for el in mesh.leaf_elements if w0 in el.vertices and w1 in el.vertices)
                        assert cnt==1, cnt
                    except Exception as ex:
                        bad.append((gname,i,l,k,orient,repr(ex)[:60]))
print(n, 'cases', time.time()-t0, 's; bad', len(bad), bad[:10])
