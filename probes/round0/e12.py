import numpy as np, mpmath as mp, random
from fractions import Fraction as Fr
from src.norms import Slobodeckij
mp.mp.dps=40
random.seed(1)
def polymul(p,q):
    r=[0]*(len(p)+len(q)-1)
    for i,a in enumerate(p):
        for j,b in enumerate(q): r[i+j]+=a*b
    return r
def h12_exact(c,a,b):
    # q(x,y)=(p(x)-p(y))/(x-y) = sum_k c_k sum_{i+j=k-1} x^i y^j ; integral of q^2 over [a,b]^2
    terms={}
    for k,ck in enumerate(c):
        for i in range(k):
            j=k-1-i; terms[(i,j)]=terms.get((i,j),0)+ck
    tot=Fr(0)
    def I(n,a,b): return (Fr(b)**(n+1)-Fr(a)**(n+1))/(n+1)
    for (i,j),u in terms.items():
        for (k,l),v in terms.items():
            tot+=u*v*I(i+k,a,b)*I(j+l,a,b)
    return tot
def h14_ref(c,a,b):
    p=lambda x: sum(ck*x**k for k,ck in enumerate(c))
    # 2*int_a^b int_a^x (p(x)-p(y))^2/(x-y)^{3/2} dy dx ; substitute y=x-u
    f=lambda x: mp.quad(lambda u: (p(x)-p(x-u))**2/u**mp.mpf(1.5),[0,x-a])
    return 2*mp.quad(f,[a,b])
worst12=0; worst14=0
for N in range(1,22,2):
    s=Slobodeckij(N)
    deg=(N-1)//2
    for (a,b) in [(0,1),(Fr(1,3),Fr(1,3)+Fr(1,1000)),(-2,5),(100,1100)]:
        c=[Fr(random.randint(-5,5)) for _ in range(deg+1)]
        if deg>=1 and c[-1]==0: c[-1]=Fr(1)
        f=lambda x: sum(float(ck)*x**k for k,ck in enumerate(c))
        v=s.seminorm_h_1_2(f,float(a),float(b)); e=h12_exact(c,a,b)
        if e!=0: worst12=max(worst12,abs(v-float(e))/float(e))
        elif abs(v)>1e-13: print('nonzero on const',N,v)
        if (a,b) in [(0,1),(-2,5)] and N in (1,5,11,21):
            v4=s.seminorm_h_1_4(f,float(a),float(b)); e4=h14_ref([float(x) for x in c],mp.mpf(float(a)),mp.mpf(float(b)))
            if e4!=0: worst14=max(worst14, float(abs(v4-e4)/e4))
    print(N, 'worst h12', worst12, 'worst h14', worst14, flush=True)
try:
    Slobodeckij(23,21)
except Exception as ex: print('order 23:', repr(ex)[:80])
