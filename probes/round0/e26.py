import numpy as np, io, contextlib, random
from scipy.special import exp1
from src.mesh import MeshParametrized
from src.parametrization import Circle, UnitSquare, LShape, PiSquare
from src.single_layer import SingleLayerOperator
FPI=1/(4*np.pi)
gx,gw=np.polynomial.legendre.leggauss(20); gx=(gx+1)/2; gw=gw/2
def graded_to(a,b,at_a,levels=30,q=0.3):
    edges=[1.0]
    for _ in range(levels): edges.append(edges[-1]*q)
    edges.append(0.0); edges=np.array(edges[::-1]); xs=[];ws=[]
    for l,r in zip(edges[:-1],edges[1:]): xs.append(l+(r-l)*gx); ws.append((r-l)*gw)
    xs=np.concatenate(xs); ws=np.concatenate(ws); h=b-a
    return (a+h*xs, h*ws) if at_a else (b-h*xs, h*ws)
def ref_eval(trial, t, x_hat, x, L, glue):
    ta,tb=trial.time_interval
    if t<=ta: return 0.0
    xa,xb=trial.space_interval
    def k(y):
        r2=np.sum((x-trial.gamma_space(y))**2,axis=0)
        v=exp1(r2/(4*(t-ta)))
        if t>tb: v=v-exp1(r2/(4*(t-tb)))
        return FPI*v
    # foot point: nearest parameter in element (direct or through the seam) - grade toward it
    if xa<x_hat<xb: segs=[(xa,x_hat,False),(x_hat,xb,True)]
    else:
        m=(xa+xb)/2; segs=[(xa,m,True),(m,xb,False)]
    tot=0.0
    for a,b,at_a in segs:
        y,w=graded_to(a,b,at_a); tot+=np.dot(w,k(y))
    return tot
random.seed(7); rng=np.random.default_rng(7)
for G in [UnitSquare, Circle, LShape, PiSquare]:
    g=G(); m=MeshParametrized(g, initial_time_mesh=[0,1,2])
    for _ in range(25):
        e=random.choice(list(m.leaf_elements)); m.refine_axis(e, random.random()<0.5)
    with contextlib.redirect_stdout(io.StringIO()): SL=SingleLayerOperator(m)
    L=g.gamma_length; els=list(m.leaf_elements)
    worst={'in':0,'near':0,'far':0}; n=0; wc={}
    for _ in range(1500):
        E=els[rng.integers(len(els))]; xa,xb=E.space_interval; h=xb-xa; ta,tb=E.time_interval
        cls=rng.integers(6)
        if cls==0: xh=xa+h*rng.uniform(0.001,0.999)
        elif cls==1: xh=xa if rng.random()<.5 else xb
        elif cls==2: xh=(xb+h*rng.uniform(1e-4,0.01)) if rng.random()<.5 else (xa-h*rng.uniform(1e-4,0.01))
        elif cls==3: xh=(xb+h*rng.uniform(0.01,1)) if rng.random()<.5 else (xa-h*rng.uniform(0.01,1))
        else: xh=rng.uniform(0,L)
        xh=xh%L if G is not None else xh
        if min(abs(xh-xa),abs(xh-xb))<=1e-5 and xa<xh<xb: continue
        tcls=rng.integers(4)
        t=[ta+ (tb-ta)*rng.uniform(0.05,1), tb, tb+(2-tb)*rng.uniform(0.01,1) if tb<2 else tb, ta][tcls]
        taus=[v for v in (t-ta,t-tb) if v>0]
        if not taus:
            x=g.eval(np.array([xh])) if len(g.pw_gamma)>1 else g.eval(xh).reshape(2,1)
            assert SL.evaluate(E,t,xh,x.reshape(2,1))==0; continue
        if h*h/min(taus)>16: continue
        x=(g.eval(np.array([xh])) if len(g.pw_gamma)>1 else g.eval(xh)).reshape(2,1)
        v=SL.evaluate(E,float(t),float(xh),x); r=ref_eval(E,t,xh,x,L,True)
        err=abs(v-r)/max(abs(r),1e-9)
        # distance class (seam aware)
        inside = xa<=xh<=xb
        d=0 if inside else min(abs(xh-xa),abs(xh-xb),abs(L-abs(xh-xa)),abs(L-abs(xh-xb)))
        c='in' if inside else ('far' if d>=0.01*h else 'near')
        if err>worst[c]: worst[c]=err; wc[c]=(E,t,xh)
        n+=1
    print(G.__name__, n, {k:float('%.2g'%v) for k,v in worst.items()}, 'limits in 1e-8 near 2e-3 far 5e-4')
