import random, io, contextlib, numpy as np, time, multiprocessing as mp
from src.mesh import MeshParametrized
from src.parametrization import Circle, UnitSquare, LShape, PiSquare
from src.single_layer import SingleLayerOperator
from src.h_h2_error_estimator import HH2ErrorEstimator
from src.hierarchical_error_estimator import HierarchicalErrorEstimator
g_lin = lambda elems: np.array([e.h_t*e.h_x for e in elems])
for G in [Circle, UnitSquare, LShape, PiSquare]:
    for seed in range(3):
        random.seed(seed)
        m = MeshParametrized(G())
        for _ in range(12):
            e = random.choice(list(m.leaf_elements)); m.refine_axis(e, random.random()<0.5)
        t=time.time()
        try:
            with contextlib.redirect_stdout(io.StringIO()):
                SL = SingleLayerOperator(m)
                elems = list(m.leaf_elements)
                mat = SL.bilform_matrix(elems, elems)
                Phi = np.linalg.solve(mat, g_lin(elems))
                hh = HH2ErrorEstimator(SL, g=g_lin, use_mp=False).estimate(elems, Phi)
                hi = HierarchicalErrorEstimator(SL, g=g_lin).estimate(elems, Phi)
            print(G.__name__, seed, len(elems), 'hh2', hh, 'hier', np.sqrt(hi.sum()), round(time.time()-t,1))
        except Exception as ex:
            import traceback; traceback.print_exc(limit=-2)
            print(G.__name__, seed, 'EXC', repr(ex)[:100])
