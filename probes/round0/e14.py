import numpy as np, io, contextlib, itertools
from src.mesh import MeshParametrized
from src.parametrization import Circle, UnitSquare, LShape
from src.single_layer import SingleLayerOperator
for G in [UnitSquare, Circle, LShape]:
    m=MeshParametrized(G(), initial_time_mesh=[0,1,2])
    m.uniform_refine(); m.uniform_refine()
    with contextlib.redirect_stdout(io.StringIO()):
        SL=SingleLayerOperator(m)
    E={(e.time_interval,e.space_interval):e for e in m.leaf_elements}
    T=sorted({k[0] for k in E}); X=sorted({k[1] for k in E})
    nex=0; bad_ex=0; nsh=0; bad_sh=0; worst=0
    rng=np.random.default_rng(0)
    for _ in range(3000):
        t1,t2=T[rng.integers(len(T))],T[rng.integers(len(T))]
        x1,x2=X[rng.integers(len(X))],X[rng.integers(len(X))]
        v=SL.bilform(E[(t2,x2)],E[(t1,x1)])   # trial=(t2,x2), test=(t1,x1)
        w=SL.bilform(E[(t2,x1)],E[(t1,x2)])   # exchange space
        nex+=1
        if v!=w: bad_ex+=1; worst=max(worst,abs(v-w)/max(abs(v),1e-300))
        # time shift by +0.25 if possible
        s=0.25
        ts1=(t1[0]+s,t1[1]+s); ts2=(t2[0]+s,t2[1]+s)
        if (ts1,x1) in E and (ts2,x2) in E:
            u=SL.bilform(E[(ts2,x2)],E[(ts1,x1)]); nsh+=1
            if u!=v: bad_sh+=1
    print(G.__name__, 'exchange', nex, 'not bitwise', bad_ex, 'worst rel', worst, '| shift', nsh, 'not bitwise', bad_sh)
