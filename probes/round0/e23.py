import numpy as np, io, contextlib
from src.mesh import Mesh
def run(eta, theta, aniso=False):
    m=Mesh(glue_space=False, initial_space_mesh=[0,1,2,3,4], initial_time_mesh=[0,1])
    with contextlib.redirect_stdout(io.StringIO()):
        if aniso: m.dorfler_refine_anisotropic(np.array(eta,dtype=float), theta)
        else: m.dorfler_refine_isotropic(np.array(eta,dtype=float), theta)
    return sorted((e.time_interval,e.space_interval) for e in m.leaf_elements if e.levels!=(0,0)), len(m.leaf_elements)
print(run([1,1,1,1],0.5))          # theta^2*tot = 1 -> 1 element marked (the last by argsort reversed)
print(run([1,1,1,1],0.75))         # 0.5625*4=2.25 -> 3 elements
print(run([4,2,1,1],0.5))          # 0.25*8=2 -> first elem (4>=2)
print(run([0,0,0,0],0.5))          # total 0 -> cumsum 0 >= 0 after first
print(run([[1,0],[0,1],[0,0],[0,0]],0.99, aniso=True))
