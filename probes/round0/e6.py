import sys, time
from fractions import Fraction as F
from src.mesh import Mesh
def key(mesh):
    return frozenset((e.time_interval, e.space_interval) for e in mesh.leaf_elements)
def build(cfg, hist):
    glue, sx, st = cfg
    m = Mesh(glue_space=glue, initial_space_mesh=[F(x) for x in sx], initial_time_mesh=[F(t) for t in st])
    for (ti, si, ax) in hist:
        for e in m.leaf_elements:
            if e.time_interval==ti and e.space_interval==si:
                m.refine_axis(e, ax); break
        else: raise Exception('nf')
    return m
def bfs(cfg, depth, maxlvl=None):
    m0 = build(cfg, [])
    seen = {key(m0): []}
    frontier=[key(m0)]
    counts=[1]
    trans=0
    for d in range(depth):
        nf=[]
        for k in frontier:
            hist = seen[k]
            m = build(cfg, hist)
            for e in list(m.leaf_elements):
                for ax in (0,1):
                    if maxlvl is not None and e.levels[ax]>=maxlvl: continue
                    m2 = build(cfg, hist)
                    h2 = hist+[(e.time_interval, e.space_interval, ax)]
                    for e2 in m2.leaf_elements:
                        if e2.time_interval==e.time_interval and e2.space_interval==e.space_interval:
                            m2.refine_axis(e2, ax); break
                    trans+=1
                    k2=key(m2)
                    if k2 not in seen:
                        seen[k2]=h2; nf.append(k2)
        frontier=nf; counts.append(len(nf))
    return counts, trans
for cfg in [(False,[0,1],[0,1]), (True,[0,1,2,3],[0,1]), (False,[0,1,2],[0,1,2]), (True,[0,1,2,3],[0,1,2])]:
    t=time.time()
    c, tr = bfs(cfg, int(sys.argv[1]))
    print(cfg, c, sum(c), 'states', tr, 'transitions', round(time.time()-t,1),'s', flush=True)
