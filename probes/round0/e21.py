import time, itertools, sys
sys.path.insert(0,'/tmp/scratch'); import conftest_patch
import src.initial_mesh as im
from fractions import Fraction as F
def key(m): return frozenset((e.vertices[0].xy, e.vertices[2].xy) for e in m.leaf_elements)
def build(M, hist):
    m=M()
    for r in hist:
        for e in m.leaf_elements:
            if (e.vertices[0].xy, e.vertices[2].xy)==r: m.refine(e); break
        else: raise Exception('nf')
    return m
def check(m, area):
    L=list(m.leaf_elements)
    assert abs(sum(e.diam**2 for e in L)-area)<1e-12,'area'
    vs=[v.xy for v in m.vertices]; assert len(vs)==len(set(vs)),'dupvert'
    for a,b in itertools.combinations(L,2):
        (x0,y0),(x1,y1)=a.vertices[0].xy,a.vertices[2].xy; (u0,v0),(u1,v1)=b.vertices[0].xy,b.vertices[2].xy
        assert not (x0<u1 and u0<x1 and y0<v1 and v0<y1),'overlap'
        # edge-adjacent: share boundary segment of positive length
        adj = ((x1==u0 or u1==x0) and (y0<v1 and v0<y1)) or ((y1==v0 or v1==y0) and (x0<u1 and u0<x1))
        if adj: assert abs(a.level-b.level)<=1, ('balance',a,b)
def bfs(M, area, depth):
    m0=M(); seen={key(m0):[]}; frontier=[key(m0)]; check(m0,area)
    for d in range(depth):
        nf=[]
        for k in frontier:
            for r in k:
                h=seen[k]+[r]; m=build(M,h); k2=key(m)
                if k2 not in seen: seen[k2]=h; nf.append(k2); check(m,area)
        frontier=nf
    return len(seen)
for name,M,area,d in [('unit',im.UnitSquare,1,5),('L',im.LShape,3,4)]:
    t=time.time()
    try: print(name,d,bfs(M,area,d),'states OK',round(time.time()-t,1))
    except AssertionError as ex: print(name,'FAIL',ex.args)
