---------------------------- MODULE STMeshP3 ----------------------------
EXTENDS Integers, FiniteSets, Sequences, TLC
CONSTANTS Nt, Nx, Glue, MaxL, MaxBis, P, CTn, CSn, Mode
CT == -CTn
CS == -CSn
VARIABLES leaves, err, op
vars == <<leaves, err, op>>
U == 2^MaxL
L == Nx * U
Lvl(e, ax) == IF ax = 0 THEN e.lt ELSE e.lx
OverT(e, f) == e.t0 < f.t1 /\ f.t0 < e.t1
OverX(e, f) == e.x0 < f.x1 /\ f.x0 < e.x1
TouchX(e, f) == e.x1 = f.x0 \/ (Glue /\ e.x1 = L /\ f.x0 = 0)
Nbr(e, f) == \/ (OverT(e, f) /\ (TouchX(e, f) \/ TouchX(f, e)))
             \/ (OverX(e, f) /\ (e.t1 = f.t0 \/ f.t1 = e.t0))
Children(e, ax) ==
  IF ax = 0 THEN LET m == (e.t0 + e.t1) \div 2 IN {[e EXCEPT !.lt = e.lt + 1, !.t1 = m], [e EXCEPT !.lt = e.lt + 1, !.t0 = m]}
            ELSE LET m == (e.x0 + e.x1) \div 2 IN {[e EXCEPT !.lx = e.lx + 1, !.x1 = m], [e EXCEPT !.lx = e.lx + 1, !.x0 = m]}
RECURSIVE RefineAx(_, _, _)
RefineAx(S, e, ax) ==
  LET lower == {f \in S : f # e /\ Lvl(f, ax) < Lvl(e, ax) /\ Nbr(e, f)}
  IN IF lower # {} THEN LET f == CHOOSE f \in lower : TRUE IN RefineAx(RefineAx(S, f, ax), e, ax)
     ELSE (S \ {e}) \cup Children(e, ax)
RECURSIVE Fix(_, _, _)
Fix(S, R, ax) ==
  LET R2 == R \cup {g \in S : \E f \in R : Lvl(g, ax) < Lvl(f, ax) /\ Nbr(f, g)}
  IN IF R2 = R THEN R ELSE Fix(S, R2, ax)
Closure(S, M, ax) == LET R == Fix(S, M, ax) IN (S \ R) \cup UNION {Children(f, ax) : f \in R}

\* Sequential processing of a todo set in ANY order compatible with 'sorted' flag.
\* Returns a set of outcomes [S |-> mesh, ok |-> BOOLEAN]; ok = FALSE models "assert not elem.children".
RECURSIVE Process(_, _, _, _)
Process(S, Todo, ax, sorted) ==
  IF Todo = {} THEN {[S |-> S, ok |-> TRUE]}
  ELSE LET cand == IF sorted THEN {e \in Todo : \A f \in Todo : Lvl(e, ax) <= Lvl(f, ax)} ELSE Todo
       IN UNION { IF e \notin S THEN {[S |-> S, ok |-> FALSE]}
                  ELSE Process(RefineAx(S, e, ax), Todo \ {e}, ax, sorted) : e \in cand }

Roots == {[t0 |-> j*U, t1 |-> (j+1)*U, x0 |-> i*U, x1 |-> (i+1)*U, lt |-> 0, lx |-> 0] : j \in 0..Nt-1, i \in 0..Nx-1}
Init == leaves = Roots /\ err = "none" /\ op = "init"
Bisect(e, ax) == /\ Lvl(e, ax) < MaxL /\ leaves' = RefineAx(leaves, e, ax) /\ op' = "bisect" /\ UNCHANGED err
UniformSpace == \E r \in Process(leaves, leaves, 1, FALSE) :
                   /\ leaves' = r.S /\ err' = (IF r.ok THEN err ELSE "uniform_refine_space:261") /\ op' = "uspace"
UniformSorted == \E r \in Process(leaves, leaves, 1, TRUE) :
                   /\ leaves' = r.S /\ err' = (IF r.ok THEN err ELSE "uniform_refine:261") /\ op' = "usorted"
\* Doerfler anisotropic with marked sets (marking itself abstracted): time phase sorted, replace by children, space phase sorted
KidsOrSelf(S, e) == IF e \in S THEN {e} ELSE Children(e, 0)
DorflerAniso(Mt, Ms) ==
  \E r1 \in Process(leaves, Mt, 0, TRUE) :
     IF ~r1.ok THEN leaves' = r1.S /\ err' = "dorfler:397" /\ op' = "dorfler"
     ELSE LET Ms2 == UNION {KidsOrSelf(r1.S, e) : e \in Ms} IN
          \E r2 \in Process(r1.S, Ms2, 1, TRUE) :
             /\ leaves' = r2.S /\ op' = "dorfler"
             /\ err' = IF ~r2.ok THEN "dorfler:411"
                       ELSE IF r2.S # Closure(Closure(leaves, Mt, 0), UNION {KidsOrSelf(Closure(leaves, Mt, 0), e) : e \in Ms}, 1) THEN "dorfler:notdeclarative"
                       ELSE err
\* grading sweep, code shaped: one sweep per step
MarkT(e) == 2 * e.lt <= CT + P * e.lx
MarkS(e) == ~MarkT(e) /\ P * e.lx - 2 * e.lt <= CS
GradeSweep ==
  LET mt == {e \in leaves : MarkT(e)}  ms == {e \in leaves : MarkS(e)} IN
  /\ mt \cup ms # {}
  /\ \E r1 \in Process(leaves, mt, 0, TRUE) :
       \E r2 \in Process(r1.S, ms, 1, TRUE) :
          /\ leaves' = r2.S /\ op' = "grade"
          /\ err' = IF ~r1.ok THEN "grading:436" ELSE IF ~r2.ok THEN "grading:440" ELSE err
Next == \/ \E e \in leaves, ax \in {0, 1} : Bisect(e, ax)
        \/ (Mode = "uspace" /\ UniformSpace)
        \/ (Mode = "usorted" /\ UniformSorted)
        \/ (Mode = "dorfler" /\ \E Mt \in SUBSET leaves, Ms \in SUBSET leaves : DorflerAniso(Mt, Ms))
        \/ (Mode = "grade" /\ GradeSweep)
Spec == Init /\ [][Next]_vars
Bound == Cardinality(leaves) <= Nt * Nx + MaxBis /\ err = "none" /\ op \in {"init", "bisect"}
NoErr == err = "none"
=============================================================================
