import numpy as np, io, contextlib
from src.mesh import MeshParametrized
from src.parametrization import Circle, UnitSquare
from src.error_estimator import ErrorEstimator
m = MeshParametrized(Circle())
els = list(m.leaf_elements)
print([e.space_interval for e in els])
def residual(t, x_hat, gamma):
    x = gamma(x_hat)
    return t*(x[0] + 2*x[1]**2)
with contextlib.redirect_stdout(io.StringIO()):
    ee = ErrorEstimator(m, N_poly=17)
L = 2*np.pi
# rotated residual check: indicators of element 0 (touching seam on left) vs element 1 with rotated residual
for e in els:
    tot, ips = ee.sobolev_space(e, residual)
    print(e.space_interval, tot, [(i, v) for i,v in ips])
# rotate residual by quarter turn: residual'(x) = residual(R^-1 x); then indicator of elem k under residual' equals indicator of elem k-1 under residual
def rot(theta):
    c,s=np.cos(theta),np.sin(theta)
    return np.array([[c,-s],[s,c]])
R = rot(np.pi/2)
def residual_rot(t, x_hat, gamma):
    x = R.T @ gamma(x_hat)
    return t*(x[0] + 2*x[1]**2)
for k,e in enumerate(els):
    tot, ips = ee.sobolev_space(e, residual_rot)
    tot0, _ = ee.sobolev_space(els[k-1], residual)
    print(k, tot, tot0, abs(tot-tot0)/abs(tot0))
