import random, sys, io, contextlib, time
import numpy as np
from src.mesh import Mesh, MeshParametrized
from src.parametrization import Circle, LShape, UnitSquare, PiSquare, UnitInterval
m = MeshParametrized(Circle(), initial_time_mesh=[0,1,2,3])
print('circle 3 slabs leaves', len(m.leaf_elements), [e.space_interval for e in m.leaf_elements][:3])
m = MeshParametrized(Circle(), initial_time_mesh=[0,1,2])
print('circle 2 slabs leaves', len(m.leaf_elements))
from src.quadrature_rules import gauss_sqrtinv_quadrature_rule
print('N=12', gauss_sqrtinv_quadrature_rule(12))
from src.single_layer import SingleLayerOperator
m = MeshParametrized(UnitSquare())
random.seed(1)
for _ in range(30):
    elem = random.choice(list(m.leaf_elements)); m.refine_axis(elem, random.random()<0.5)
SL = SingleLayerOperator(m)
el = list(m.leaf_elements)
t=time.time(); M = SL.bilform_matrix(el, el); dt=time.time()-t
print(len(el), 'elems; matrix', dt, 's ->', dt/len(el)**2*1e3, 'ms/pair')
SLx = SingleLayerOperator(m, pw_exact=True)
t=time.time(); Mx = SLx.bilform_matrix(el, el); dt=time.time()-t
print('exact', dt, 's', np.abs(M-Mx).max(), np.abs(M).max())
# dorfler random robustness
bad=[]
with contextlib.redirect_stdout(io.StringIO()):
  for seed in range(300):
    rng = np.random.default_rng(seed)
    G = [Circle,UnitSquare,LShape][seed%3]
    mesh = MeshParametrized(G())
    try:
        for k in range(8):
            n=len(mesh.leaf_elements)
            kind = rng.integers(3)
            if kind==0: eta = rng.random((n,2))
            elif kind==1: eta = (rng.random((n,2))<0.3)*1.0+1e-3
            else: eta = rng.random((n,2))**8
            if rng.random()<0.5: mesh.dorfler_refine_anisotropic(eta, float(rng.choice([0.3,0.6,0.9,0.99])))
            else: mesh.dorfler_refine_isotropic(eta.sum(axis=1), float(rng.choice([0.3,0.6,0.9,0.99])))
            if len(mesh.leaf_elements)>3000: break
    except Exception as e:
        bad.append((seed, repr(e)[:80]))
print('dorfler bad', bad)
