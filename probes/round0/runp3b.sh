#!/bin/bash
CP=/opt/veriftools/tla/tla2tools.jar:/opt/veriftools/tla/CommunityModules-deps.jar
cd /tmp/scratch/tla
run() { # mode nx glue maxbis
cat > p3.cfg <<EOT
CONSTANTS Nt = 1 Nx = $2 Glue = $3 MaxL = 8 MaxBis = $4 P = 4 CTn = 4 CSn = 4 Mode = "$1"
SPECIFICATION Spec
INVARIANT NoErr
CONSTRAINT Bound
CHECK_DEADLOCK FALSE
EOT
rm -rf m3; echo "== $*"; timeout $5 /usr/bin/time -f "%e s" java -XX:+UseSerialGC -Xmx8g -cp $CP tlc2.TLC -workers 16 -metadir /tmp/scratch/tla/m3 -noGenerateSpecTE -config p3.cfg STMeshP3.tla 2>&1 | grep -v "Semantic\|Parsing\|^  \[" | grep "Error\|err =\|op =\|states generated,\|^State\| s$\|violated" | head -30
}
run grade 2 FALSE 5 600
run grade 1 FALSE 6 600
run dorfler 2 FALSE 2 600
