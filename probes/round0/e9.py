from src.mesh import Mesh
import random, traceback, sys
bad=0; first=None
for seed in range(200):
    random.seed(seed)
    m = Mesh(glue_space=bool(seed%2), initial_space_mesh=[0,1,2,3] if seed%3 else [0,1])
    hist=[]
    for _ in range(random.randint(1,6)):
        e = random.choice(list(m.leaf_elements)); ax=random.random()<0.5
        hist.append((e.time_interval,e.space_interval,int(ax)))
        m.refine_axis(e, ax)
    try:
        m.uniform_refine_space()
    except (AssertionError, AttributeError):
        bad+=1
        if first is None or len(hist)<len(first[1]): first=(seed,hist, traceback.extract_tb(sys.exc_info()[2])[-1].lineno)
print('uniform_refine_space failures', bad, first)
bad=0
for seed in range(200):
    random.seed(seed)
    m = Mesh(glue_space=bool(seed%2), initial_space_mesh=[0,1,2,3] if seed%3 else [0,1])
    for _ in range(random.randint(1,12)):
        e = random.choice(list(m.leaf_elements)); m.refine_axis(e, random.random()<0.5)
    try: m.uniform_refine()
    except (AssertionError, AttributeError): bad+=1
print('uniform_refine failures', bad)
bad=0
for seed in range(200):
    random.seed(seed)
    m = Mesh(glue_space=bool(seed%2), initial_space_mesh=[0,1,2,3] if seed%3 else [0,1])
    for _ in range(random.randint(1,12)):
        e = random.choice(list(m.leaf_elements)); m.refine_axis(e, random.random()<0.5)
    try:
        e = random.choice(list(m.leaf_elements)); m.refine(e)
    except (AssertionError, AttributeError): bad+=1
print('refine (both) failures', bad)
