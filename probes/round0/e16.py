import numpy as np, io, contextlib, random
from src.mesh import MeshParametrized
from src.parametrization import Circle
from src.single_layer import SingleLayerOperator
m=MeshParametrized(Circle())
with contextlib.redirect_stdout(io.StringIO()):
    A=SingleLayerOperator(m).bilform_matrix(); B=SingleLayerOperator(m,pw_exact=True).bilform_matrix()
print(A[0]); print(B[0])
