import sys, runpy, os, time, io, contextlib
sys.path.insert(0, '/repo')
import numpy as np
import src.mesh as M
class Stop(Exception): pass
captured=[]
_solve = np.linalg.solve
def solve(a,b):
    x=_solve(a,b); captured.append((a.copy(),b.copy(),x.copy())); return x
np.linalg.solve = solve
cnt={'n':0}
def wrap(name):
    orig=getattr(M.Mesh,name)
    def w(self,*a,**k):
        cnt['n']+=1
        if cnt['n']>int(os.environ.get('MAXIT','1')): raise Stop()
        return orig(self,*a,**k)
    setattr(M.Mesh,name,w)
for n in ['uniform_refine','dorfler_refine_isotropic','dorfler_refine_anisotropic']: wrap(n)
sys.argv=['example.py','--problem','Dirichlet','--domain','Circle','--refinement','anisotropic','--no-h-h2']
t=time.time()
try:
    with contextlib.redirect_stdout(io.StringIO()):
        runpy.run_path('/repo/example.py', run_name='__main__')
except Stop:
    pass
print('solves', len(captured), [c[0].shape for c in captured], time.time()-t)
a,b,x=captured[-1]; print(np.abs(a@x-b).max())
print(os.listdir('.'), os.listdir('data')[:5])
