import math, numpy as np
import src.initial_mesh as im
_isclose = math.isclose
def isclose(a,b,**k):
    f=lambda v: float(np.asarray(v).reshape(-1)[0]) if np.ndim(v) else v
    return _isclose(f(a),f(b),**k)
im.isclose = isclose
