CONSTANTS Nt = 1 Nx = 3 Glue = TRUE MaxL = 5 MaxBis = 2
SPECIFICATION Spec
INVARIANT Tiling
INVARIANT OneIrr
CONSTRAINT Bound
CHECK_DEADLOCK FALSE
INVARIANT ClosureAgrees
