import numpy as np, itertools
from src.quadrature import *
def exact_box(exps, box):
    v=1.0
    for e,(a,b) in zip(exps,box): v*= (b**(e+1)-a**(e+1))/(e+1)
    return v
def check2(s, deg, box=(0.3,1.7,-2.0,0.5)):
    a,b,c,d=box; worst=0
    for i in range(deg+1):
        for j in range(deg+1-i):
            v=s.integrate(lambda x: x[0]**i*x[1]**j, a,b,c,d); e=exact_box((i,j),((a,b),(c,d)))
            sc=exact_box((i,j),((0,max(abs(a),abs(b))),(0,max(abs(c),abs(d)))))
            worst=max(worst,abs(v-e)/sc)
    return worst
def check3(s, deg, box=(0.3,1.7,-2.0,0.5,1.0,1.5)):
    a,b,c,d,k,l=box; worst=0
    for i in range(deg+1):
        for j in range(deg+1-i):
            for m in range(deg+1-i-j):
                v=s.integrate(lambda x: x[0]**i*x[1]**j*x[2]**m, a,b,c,d,k,l); e=exact_box((i,j,m),((a,b),(c,d),(k,l)))
                sc=exact_box((i,j,m),((0,max(abs(a),abs(b))),(0,max(abs(c),abs(d))),(0,max(abs(k),abs(l)))))
                worst=max(worst,abs(v-e)/sc)
    return worst
for name,base,deg in [('gauss7',gauss_quadrature_scheme(7),7),('gauss23',gauss_quadrature_scheme(23),23),('log12',log_quadrature_scheme(12,12),12),('log4',log_quadrature_scheme(4,4),4),('loglog3,3',log_log_quadrature_scheme(3,3),3), ('sqrt5', sqrt_quadrature_scheme(5,5),5)]:
    p2=ProductScheme2D(base)
    r=[('tensor',check2(p2,deg), check2(p2,deg+1)),
       ('tensor mx.my',check2(p2.mirror_x().mirror_y(),deg),None),
       ('duffy ns',check2(DuffyScheme2D(p2,False),deg-1), check2(DuffyScheme2D(p2,False),deg)),
       ('duffy s (sym monomials only n/a)',None,None)]
    print(name, [(n, None if a is None else float('%.2g'%a), None if b is None else float('%.2g'%b)) for n,a,b in r])
    if deg<=12:
        p3=ProductScheme3D(base)
        print('   3d tensor', '%.2g'%check3(p3,deg), ' duffyId ns deg-2', '%.2g'%check3(DuffySchemeIdentical3D(p3,False),deg-2), 'deg-1', '%.2g'%check3(DuffySchemeIdentical3D(p3,False),deg-1), ' touch deg-2', '%.2g'%check3(DuffySchemeTouch3D(p3),deg-2), 'deg-1 %.2g'%check3(DuffySchemeTouch3D(p3),deg-1), ' sumw', DuffySchemeIdentical3D(p3,False).weights.sum(), DuffySchemeTouch3D(p3).weights.sum())
