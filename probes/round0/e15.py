import numpy as np, io, contextlib, random
from src.mesh import MeshParametrized
from src.parametrization import Circle, UnitSquare, LShape, PiSquare
from src.single_layer import SingleLayerOperator
for G in [UnitSquare, Circle, LShape, PiSquare]:
  for pw in (False, True):
    random.seed(2)
    m=MeshParametrized(G(), initial_time_mesh=[0,1,2,4])
    for _ in range(60):
        e=random.choice(list(m.leaf_elements)); ax=random.random()<0.6
        # keep aspect moderate
        m.refine_axis(e, ax)
    with contextlib.redirect_stdout(io.StringIO()):
        SL=SingleLayerOperator(m, pw_exact=pw)
        els=[e for e in m.leaf_elements if e.h_x**2/e.h_t<=32]
        A=SL.bilform_matrix(els,els)
    d=np.sqrt(np.diag(A))
    S=A/np.outer(d,d)
    acausal=np.array([[ti.time_interval[1]<=tj.time_interval[0] for tj in els] for ti in els])
    print(G.__name__, pw, len(els), 'acausal nonzero', np.count_nonzero(A[acausal]), 'causal zero', np.count_nonzero(A[~acausal]==0), 'min causal scaled', S[~acausal].min(), 'min nonzero', np.abs(A[A!=0]).min())
