import numpy as np
from src.parametrization import PiecewisePolygon, UnitSquare, PiSquare, LShape, Circle, UnitInterval
from src.mesh import MeshParametrized
def tryp(vs, closed=True):
    try:
        g=PiecewisePolygon([np.array(v,dtype=float) for v in vs], closed=closed); return g
    except AssertionError as ex: return None
print('scaled .1', tryp([(0,0),(.1,0),(.1,.1),(0,.1),(0,0)]) is not None)
print('scaled 3', tryp([(0,0),(3,0),(3,3),(0,3),(0,0)]) is not None)
g=tryp([(0,0),(2,0),(2,1),(1,1),(1,2),(0,2),(0,0)])
print('L poly', g is not None, g.pw_start if g else None)
# diagonal polygon?
print('diag', tryp([(0,0),(1,1),(0,2),(-1,1),(0,0)]) is not None)
print('3-4-5', tryp([(0,0),(3,0),(3,4),(0,0)]) is not None)
for G in [UnitSquare,PiSquare,LShape,Circle,UnitInterval]:
    g=G()
    # eval at breakpoints equals piece eval (both adjacent pieces agree?)
    for i,x in enumerate(g.pw_start):
        v=g.eval(np.array([x])) if len(g.pw_gamma)>1 else g.eval(x)
        left = g.pw_gamma[i-1](x) if i>0 else None; right=g.pw_gamma[i](x) if i<len(g.pw_gamma) else None
        ok = [np.array_equal(np.asarray(v).reshape(2,-1)[:,0], np.asarray(p).reshape(2,-1)[:,0]) for p in (left,right) if p is not None]
        if not all(ok): print(G.__name__,'break',i,x,ok, np.asarray(v).ravel(), None if left is None else left.ravel(), None if right is None else right.ravel())
    m=MeshParametrized(g) if G is not UnitInterval else MeshParametrized(g)
    print(G.__name__, 'closed', g.closed, 'roots', len(m.roots), 'leaves', len(m.leaf_elements))
