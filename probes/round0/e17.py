import numpy as np, io, contextlib, random, itertools
from src.mesh import MeshParametrized
from src.parametrization import Circle, UnitSquare, LShape, PiSquare
from src.single_layer import SingleLayerOperator
from src.hierarchical_error_estimator import DummyElement
from src.mesh import Vertex
def pieces(e, kind):
    if kind=='none': return [e]
    q = DummyElement.uniform_refinement([e])[0]  # order: (t-,x-),(t-,x+),(t+,x-),(t+,x+)
    if kind=='quarter': return q
    v0,v1,v2,v3=e.vertices
    if kind=='time':
        tm=(v0.t+v2.t)/2
        a=DummyElement([v0,v1,Vertex(tm,v1.x,-1),Vertex(tm,v0.x,-1)],e.gamma_space)
        b=DummyElement([Vertex(tm,v0.x,-1),Vertex(tm,v1.x,-1),v2,v3],e.gamma_space)
        return [a,b]
    if kind=='space':
        xm=(v0.x+v1.x)/2
        a=DummyElement([v0,Vertex(v0.t,xm,-1),Vertex(v2.t,xm,-1),v3],e.gamma_space)
        b=DummyElement([Vertex(v0.t,xm,-1),v1,v2,Vertex(v2.t,xm,-1)],e.gamma_space)
        return [a,b]
for G in [UnitSquare, Circle, LShape, PiSquare]:
    random.seed(4)
    m=MeshParametrized(G(), initial_time_mesh=[0,1,2])
    for _ in range(40):
        e=random.choice(list(m.leaf_elements)); m.refine_axis(e, random.random()<0.6)
    with contextlib.redirect_stdout(io.StringIO()):
        SL=SingleLayerOperator(m)
    els=[e for e in m.leaf_elements if e.h_x**2/e.h_t<=8]
    D={e:SL.bilform(e,e) for e in els}
    worst=0; n=0; wcase=None
    rng=np.random.default_rng(1)
    pairs=[(els[i],els[j]) for i,j in rng.integers(len(els),size=(150,2))]+[(e,e) for e in els[:10]]
    for te,tr in pairs:
        whole=SL.bilform(tr,te)
        for k1,k2 in itertools.product(['none','time','space','quarter'],repeat=2):
            if k1==k2=='none': continue
            s=sum(SL.bilform(ptr,pte) for pte in pieces(te,k1) for ptr in pieces(tr,k2))
            err=abs(s-whole)/np.sqrt(D[te]*D[tr]); n+=1
            if err>worst: worst=err; wcase=(te,tr,k1,k2)
    # definiteness
    with contextlib.redirect_stdout(io.StringIO()):
        A=SL.bilform_matrix(els,els)
    d=np.sqrt(np.diag(A)); S=(A+A.T)/2/np.outer(d,d)
    print(G.__name__, len(els), 'additivity worst', worst, n, wcase, 'lambda_min', np.linalg.eigvalsh(S).min())
