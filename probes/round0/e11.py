import ast, mpmath as mp, sys
mp.mp.dps = 60
src = open('/repo/src/quadrature_rules.py').read()
tree = ast.parse(src)
def lit(node):
    # return mp.mpf from source text of numeric literal (handles unary minus)
    seg = ast.get_source_segment(src, node)
    return mp.mpf(seg.replace(' ',''))
rules = {}
for fn in [n for n in tree.body if isinstance(n, ast.FunctionDef)]:
    # walk the if/elif chain
    node = [s for s in fn.body if isinstance(s, ast.If)][0]
    while isinstance(node, ast.If):
        key = ast.literal_eval(node.test.comparators[0])
        body = node.body[0]
        val = body.value if isinstance(body,(ast.Return,ast.Expr)) else None
        has_ret = isinstance(body, ast.Return)
        nodes = [lit(e) for e in val.elts[0].elts]; w = val.elts[1]
        ws = [lit(e) for e in w.elts]
        rules[(fn.name,key)] = (nodes, ws, has_ret)
        node = node.orelse[0] if node.orelse and isinstance(node.orelse[0], ast.If) else None
print(len(rules), 'rules')
def mom(fam, k, part):
    k = mp.mpf(k)
    if part=='poly': return 1/(k+1)
    if part=='log': return -1/(k+1)**2
    if part=='log1m': return -(mp.digamma(k+2)+mp.euler)/(k+1)   # int x^k log(1-x) = -H_{k+1}/(k+1)
    if part=='sqrt': return 1/(k+mp.mpf(3)/2)
    if part=='sqrtinv': return 1/(k+mp.mpf(1)/2)
    if part=='wx': return 1/(k+2)
    if part=='wlog': return -1/(k+1)**2
f = {'poly': lambda x,k: x**k, 'log': lambda x,k: x**k*mp.log(x), 'log1m': lambda x,k: x**k*mp.log(1-x),
     'sqrt': lambda x,k: x**k*mp.sqrt(x), 'sqrtinv': lambda x,k: x**k/mp.sqrt(x)}
def err(nodes, ws, part, k, weighted=None):
    if weighted: # gauss w.r.t weight: sum w_i x_i^k = int w(x) x^k
        s = sum(w*x**k for x,w in zip(nodes,ws)); m = mom(None,k,weighted)
    else:
        s = sum(w*f[part](x,k) for x,w in zip(nodes,ws)); m = mom(None,k,part)
    return abs(s-m)/abs(m)
worst = {}
for (fn,key),(nodes,ws,ret) in sorted(rules.items(), key=lambda kv:(kv[0][0],str(kv[0][1]))):
    n=len(nodes); assert n==len(ws), (fn,key)
    res=[]
    if fn=='log_quadrature_rule':
        P,Lg=key; res=[err(nodes,ws,'poly',k) for k in range(P+1)]+[err(nodes,ws,'log',k) for k in range(Lg+1)]
    elif fn=='log_log_quadrature_rule':
        P,Lg=key; res=[err(nodes,ws,'poly',k) for k in range(P+1)]+[err(nodes,ws,'log',k) for k in range(Lg+1)]+[err(nodes,ws,'log1m',k) for k in range(Lg+1)]
    elif fn=='sqrt_quadrature_rule':
        P,Q=key; res=[err(nodes,ws,'poly',k) for k in range(P+1)]+[err(nodes,ws,'sqrt',k) for k in range(Q+1)]
    elif fn=='sqrtinv_quadrature_rule':
        P,Q=key; res=[err(nodes,ws,'poly',k) for k in range(P+1)]+[err(nodes,ws,'sqrtinv',k) for k in range(Q+1)]
    elif fn=='gauss_sqrtinv_quadrature_rule':
        res=[err(nodes,ws,None,k,'sqrtinv') for k in range(2*n)]
    elif fn=='gauss_x_quadrature_rule':
        res=[err(nodes,ws,None,k,'wx') for k in range(2*n)]
    elif fn=='gauss_log_quadrature_rule':
        res=[err(nodes,ws,None,k,'wlog') for k in range(2*n)]
    inside = all(0<x<1 for x in nodes); onesign = all(w>0 for w in ws) or all(w<0 for w in ws)
    m = max(res) if res else 0
    flag = '' if (m<mp.mpf('1e-30') and inside and onesign and ret) else '  <<<<'
    print(f"{fn:32s} {str(key):9s} n={n:2d} ret={ret} inside={inside} onesign={onesign} maxrelerr={mp.nstr(m,3)}{flag}")
print('---- gauss_log detail')
for key in (15,31,7):
    nodes,ws,_ = rules[('gauss_log_quadrature_rule',key)]
    n=len(nodes)
    rel=[]; ab=[]
    for k in range(2*n):
        s=sum(w*x**k for x,w in zip(nodes,ws)); m=-1/mp.mpf(k+1)**2
        rel.append(abs(s-m)/abs(m)); ab.append(abs(s-m))
    print(key, 'max rel', mp.nstr(max(rel),3),'at k=',rel.index(max(rel)), 'max abs', mp.nstr(max(ab),3), 'at k=', ab.index(max(ab)), 'k=0 abs', mp.nstr(ab[0],3))
    # double precision check
    import numpy as np
    x=np.array([float(v) for v in nodes]); w=np.array([float(v) for v in ws])
    print('   double: max rel', max(abs(np.dot(w,x**k)+1/(k+1)**2)*(k+1)**2 for k in range(2*n)))
