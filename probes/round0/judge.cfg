SPECIFICATION Spec
INVARIANT AcceptInv
INVARIANT Done
POSTCONDITION Post
CHECK_DEADLOCK FALSE
