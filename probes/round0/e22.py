import numpy as np, io, contextlib, random, os, tempfile, shutil, glob, multiprocessing as mp
from src.mesh import MeshParametrized
from src.parametrization import Circle, UnitSquare
from src.single_layer import SingleLayerOperator
random.seed(1)
m=MeshParametrized(UnitSquare())
for _ in range(8):
    e=random.choice(list(m.leaf_elements)); m.refine_axis(e, random.random()<0.5)
d=tempfile.mkdtemp()
out=io.StringIO()
with contextlib.redirect_stdout(out):
    SL=SingleLayerOperator(m, cache_dir=d)
    els=list(m.leaf_elements); print(len(els))
    ref=np.array([[SL.bilform(tr,te) for tr in els] for te in els])
    A1=SL.bilform_matrix(els,els)            # serial, saves
    files=glob.glob(d+'/*'); 
    A2=SL.bilform_matrix(els,els)            # hit
    A3=SL.bilform_matrix(els,els,use_mp=True)
res={'serial':(A1==ref).all(),'hit':(A2==ref).all(),'nfiles':len(files)}
fn=files[0]; raw=open(fn,'rb').read()
for name,data in [('empty',b''),('header',raw[:128]),('half',raw[:len(raw)//2]),('short1',raw[:-1]),('garbage',os.urandom(len(raw)))]:
    open(fn,'wb').write(data)
    with contextlib.redirect_stdout(out):
        try:
            A=SL.bilform_matrix(els,els); res[name]=bool((A==ref).all())
        except Exception as ex: res[name]='EXC '+repr(ex)[:60]
    res[name+'_restored']= open(fn,'rb').read()==raw
# pool, without cache
with contextlib.redirect_stdout(out):
    SL2=SingleLayerOperator(m)
    for w in (1,3,16):
        mp.cpu_count=lambda w=w: w
        A=SL2.bilform_matrix(els,els,use_mp=True); res['pool%d'%w]=bool((A==ref).all())
    # rectangular
    A=SL2.bilform_matrix(els[:13],els[3:],use_mp=True); res['rect']=bool((A==ref[:13,3:]).all())
    A=SL2.bilform_matrix(els[:3],els[3:10]); res['inline']=bool((A==ref[:3,3:10]).all())
print(res)
shutil.rmtree(d)
