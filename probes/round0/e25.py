import sys, runpy, os, time, io, contextlib
sys.path.insert(0, '/repo')
import numpy as np
import src.mesh as M
import src.error_estimator as EE
class Stop(Exception): pass
cap=[]
_res = EE.ErrorEstimator.residual
def res(self, elems, Phi, SL, *a, **k):
    r=_res(self, elems, Phi, SL, *a, **k); cap.append((list(elems), np.array(Phi), r))
    if len(cap)>int(os.environ.get('MAXIT','1')): raise Stop()
    return r
EE.ErrorEstimator.residual = res
cnt={'n':0}
def wrap(name):
    orig=getattr(M.Mesh,name)
    def w(self,*a,**k):
        cnt['n']+=1
        if cnt['n']>int(os.environ.get('MAXIT','1')): raise Stop()
        return orig(self,*a,**k)
    setattr(M.Mesh,name,w)
for n in ['uniform_refine','dorfler_refine_isotropic','dorfler_refine_anisotropic']: wrap(n)
prob,dom,ref=sys.argv[1:4]
sys.argv=['example.py','--problem',prob,'--domain',dom,'--refinement',ref,'--no-h-h2','--no-sobolev']+sys.argv[4:]
t=time.time()
try:
    with contextlib.redirect_stdout(io.StringIO()), contextlib.redirect_stderr(io.StringIO()):
        runpy.run_path('/repo/example.py', run_name='__main__')
except Stop: pass
except Exception as ex: print('driver stopped with', repr(ex)[:100])
print('captured', len(cap), 'residuals in', round(time.time()-t,1))
gx,gw=np.polynomial.legendre.leggauss(8); gx=(gx+1)/2; gw=gw/2
def graded(a,b,levels=2,q=0.15):
    # composite GL graded to both ends
    m=(a+b)/2; xs=[];ws=[]
    for lo,hi,toward_lo in [(a,m,True),(m,b,False)]:
        edges=[1.0]
        for _ in range(levels): edges.append(edges[-1]*q)
        edges.append(0.0); edges=edges[::-1]
        for l,r in zip(edges[:-1],edges[1:]):
            x=l+(r-l)*gx; w=(r-l)*gw
            if toward_lo: xs.append(lo+(hi-lo)*x)
            else: xs.append(hi-(hi-lo)*x)
            ws.append((hi-lo)*w)
    return np.concatenate(xs),np.concatenate(ws)
for elems,Phi,r in cap:
    tl=sorted({t for e in elems for t in e.time_interval}); xl=sorted({x for e in elems for x in e.space_interval})
    worst=0
    for E in elems:
        tb=[t for t in tl if E.time_interval[0]<=t<=E.time_interval[1]]; xb=[x for x in xl if E.space_interval[0]<=x<=E.space_interval[1]]
        I=0;A=0
        for t0,t1 in zip(tb[:-1],tb[1:]):
            T,WT=graded(t0,t1)
            for x0,x1 in zip(xb[:-1],xb[1:]):
                X,WX=graded(x0,x1)
                TT=np.repeat(T,len(X)); XX=np.tile(X,len(T)); WW=np.kron(WT,WX)
                v=r(TT,XX,E.gamma_space)
                I+=np.dot(WW,v); A+=np.dot(WW,np.abs(v))
        worst=max(worst, abs(I)/(5e-5*A+1e-12))
    print(len(elems),'elems: worst |int r|/(5e-5 int|r| + 1e-12) =', worst, flush=True)
