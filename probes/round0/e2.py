import random, sys, io, contextlib, time, signal
import numpy as np
from src.mesh import Mesh, MeshParametrized
from src.parametrization import Circle, LShape, UnitSquare, PiSquare, UnitInterval
class TO(Exception): pass
def h(*a): raise TO()
signal.signal(signal.SIGALRM, h)
fails = {}
for name, G in [('Circle',Circle),('UnitSquare',UnitSquare),('LShape',LShape)]:
    for seed in range(30):
        mesh = MeshParametrized(G())
        random.seed(seed)
        for _ in range(200):
            elem = random.choice(list(mesh.leaf_elements))
            mesh.refine_axis(elem, random.random() < 0.5)
        n0 = len(mesh.leaf_elements)
        signal.alarm(5)
        try:
            with contextlib.redirect_stdout(io.StringIO()):
                mesh.refine_grading(sigma=2, K=4)
            signal.alarm(0)
        except AssertionError as e:
            signal.alarm(0)
            import traceback
            tb = traceback.extract_tb(sys.exc_info()[2])[-1]
            fails.setdefault(name, []).append((seed, 'assert', tb.lineno))
        except TO:
            fails.setdefault(name, []).append((seed, 'timeout', n0, len(mesh.leaf_elements)))
print('grading fails', fails, flush=True)
