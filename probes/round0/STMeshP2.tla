---------------------------- MODULE STMeshP2 ----------------------------
EXTENDS Integers, FiniteSets, Sequences, TLC
CONSTANTS Nt, Nx, Glue, MaxL, MaxBis
VARIABLES leaves
vars == <<leaves>>
U == 2^MaxL
L == Nx * U
\* a leaf: [t0, t1, x0, x1, lt, lx]
Lvl(e, ax) == IF ax = 0 THEN e.lt ELSE e.lx
OverT(e, f) == e.t0 < f.t1 /\ f.t0 < e.t1
OverX(e, f) == e.x0 < f.x1 /\ f.x0 < e.x1
TouchX(e, f) == e.x1 = f.x0 \/ (Glue /\ e.x1 = L /\ f.x0 = 0)
Nbr(e, f) == \/ (OverT(e, f) /\ (TouchX(e, f) \/ TouchX(f, e)))
             \/ (OverX(e, f) /\ (e.t1 = f.t0 \/ f.t1 = e.t0))
Nbrs(S, e) == {f \in S : f # e /\ Nbr(e, f)}
Children(e, ax) ==
  IF ax = 0 THEN LET m == (e.t0 + e.t1) \div 2 IN {[e EXCEPT !.lt = e.lt + 1, !.t1 = m], [e EXCEPT !.lt = e.lt + 1, !.t0 = m]}
            ELSE LET m == (e.x0 + e.x1) \div 2 IN {[e EXCEPT !.lx = e.lx + 1, !.x1 = m], [e EXCEPT !.lx = e.lx + 1, !.x0 = m]}
RECURSIVE RefineAx(_, _, _)
RefineAx(S, e, ax) ==
  LET lower == {f \in S : f # e /\ Lvl(f, ax) < Lvl(e, ax) /\ Nbr(e, f)}
  IN IF lower # {} THEN LET f == CHOOSE f \in lower : TRUE IN RefineAx(RefineAx(S, f, ax), e, ax)
     ELSE (S \ {e}) \cup Children(e, ax)
RECURSIVE Fix(_, _, _)
Fix(S, R, ax) ==
  LET R2 == R \cup {g \in S : \E f \in R : Lvl(g, ax) < Lvl(f, ax) /\ Nbr(f, g)}
  IN IF R2 = R THEN R ELSE Fix(S, R2, ax)
Closure(S, e, ax) == LET R == Fix(S, {e}, ax) IN (S \ R) \cup UNION {Children(f, ax) : f \in R}
Roots == {[t0 |-> j*U, t1 |-> (j+1)*U, x0 |-> i*U, x1 |-> (i+1)*U, lt |-> 0, lx |-> 0] : j \in 0..Nt-1, i \in 0..Nx-1}
Init == leaves = Roots
Bisect(e, ax) == /\ Lvl(e, ax) < MaxL
                 /\ leaves' = RefineAx(leaves, e, ax)
Next == \E e \in leaves, ax \in {0, 1} : Bisect(e, ax)
Spec == Init /\ [][Next]_vars
Bound == Cardinality(leaves) <= Nt * Nx + MaxBis
Area(e) == (e.t1 - e.t0) * (e.x1 - e.x0)
RECURSIVE SumArea(_)
SumArea(S) == IF S = {} THEN 0 ELSE LET e == CHOOSE e \in S : TRUE IN Area(e) + SumArea(S \ {e})
Tiling == /\ \A e, f \in leaves : e # f => ~(OverT(e, f) /\ OverX(e, f))
          /\ SumArea(leaves) = Nt * U * L
OneIrr == \A e \in leaves : \A f \in Nbrs(leaves, e) : (e.lt - f.lt) \in {-1, 0, 1} /\ (e.lx - f.lx) \in {-1, 0, 1}
ClosureAgrees == \A e \in leaves, ax \in {0,1} : Lvl(e, ax) < MaxL => RefineAx(leaves, e, ax) = Closure(leaves, e, ax)
=============================================================================
