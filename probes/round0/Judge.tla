---- MODULE Judge ----
EXTENDS Integers, Sequences, TLC, Json, IOUtils, FiniteSets
Trace == JsonDeserialize(IOEnv.TRACE_FILE)
VARIABLES i, covered
Init == i = 0 /\ covered = {}
Acausal(r) == r.tb <= r.tc
ClassOf(r) == IF Acausal(r) THEN "acausal" ELSE "causal"
Accept(r) == /\ r.cls = ClassOf(r)
             /\ (Acausal(r) => r.zero)
             /\ (~Acausal(r) => r.errppm <= 1000000)
Next == i < Len(Trace) /\ i' = i + 1 /\ covered' = covered \cup {Trace[i+1].cls}
Spec == Init /\ [][Next]_<<i, covered>>
AcceptInv == i = 0 \/ Accept(Trace[i])
Done == i = Len(Trace) => covered = {"acausal", "causal"}
Post == TLCGet("stats").diameter - 1 = Len(Trace)
====
