import numpy as np, time, random, io, contextlib
from scipy.special import exp1
from src.mesh import MeshParametrized
from src.parametrization import Circle, UnitSquare, LShape, PiSquare
from src.single_layer import SingleLayerOperator
FPI=1/(4*np.pi)
def F(z, r2):
    # F''(z) = -G(z,r): F(z) = (1/4pi) [ z e^{-r2/4z} - (r2/4+z) E1(r2/4z) ]
    if z<=0: return np.zeros_like(r2)
    q = r2/(4*z)
    with np.errstate(divide='ignore', invalid='ignore'):
        v = FPI*(z*np.exp(-q) - (r2/4+z)*exp1(q))
    return np.where(r2==0, FPI*z, v)   # limit q->0: (r2/4+z)E1(q)-> z*E1 -> inf?? no
def Gtt(a,b,c,d,r2):
    return F(b-d,r2)-F(b-c,r2)+F(a-c,r2)-F(a-d,r2)
gl_x, gl_w = np.polynomial.legendre.leggauss(16)
gl_x=(gl_x+1)/2; gl_w=gl_w/2
def graded(a, b, sing_at_a=True, levels=40, q=0.35):
    # composite GL on [a,b] graded geometrically toward a (or b)
    h=b-a; edges=[1.0]
    for k in range(levels): edges.append(edges[-1]*q)
    edges.append(0.0); edges=np.array(edges[::-1])
    xs=[];ws=[]
    for l,r in zip(edges[:-1],edges[1:]):
        xs.append(l+(r-l)*gl_x); ws.append((r-l)*gl_w)
    xs=np.concatenate(xs); ws=np.concatenate(ws)
    if sing_at_a: return a+h*xs, h*ws
    else: return b-h*xs, h*ws
def both(a,b,**k):
    m=(a+b)/2
    x1,w1=graded(a,m,True,**k); x2,w2=graded(m,b,False,**k)
    return np.concatenate([x1,x2]), np.concatenate([w1,w2])
def ref(test, trial, L, glue):
    a,b=test.time_interval; c,d=trial.time_interval
    if b<=c: return 0.0
    xa,xb=test.space_interval; ya,yb=trial.space_interval
    # outer nodes in x graded to both ends and to trial endpoints if inside
    brk=sorted(set([xa,xb]+[p for p in (ya,yb) if xa<p<xb]))
    X=[];W=[]
    for l,r in zip(brk[:-1],brk[1:]):
        x,w=both(l,r); X.append(x);W.append(w)
    X=np.concatenate(X);W=np.concatenate(W)
    tot=0.0
    gx=test.gamma_space(X)
    for i,(x,w) in enumerate(zip(X,W)):
        # inner: break at x if inside [ya,yb]; grade toward nearest approach
        pts=[ya,yb]+([x] if ya<x<yb else [])
        pts=sorted(set(pts))
        val=0.0
        for l,r in zip(pts[:-1],pts[1:]):
            y,wy=both(l,r)
            d2=np.sum((gx[:,i:i+1]-trial.gamma_space(y))**2,axis=0)
            val+=np.dot(wy,Gtt(a,b,c,d,d2))
        tot+=w*val
    return tot
random.seed(3)
for G in [UnitSquare, Circle, LShape]:
    m=MeshParametrized(G())
    for _ in range(25):
        e=random.choice(list(m.leaf_elements)); m.refine_axis(e, random.random()<0.5)
    with contextlib.redirect_stdout(io.StringIO()):
        SL=SingleLayerOperator(m)
    els=list(m.leaf_elements)
    L=m.gamma_space.gamma_length
    pairs=[(random.choice(els),random.choice(els)) for _ in range(12)]+[(e,e) for e in els[:3]]
    worst=0;t0=time.time()
    for te,tr in pairs:
        v=SL.bilform(tr,te); r=ref(te,tr,L,True)
        dte=ref(te,te,L,True); dtr=ref(tr,tr,L,True)
        err=abs(v-r)/np.sqrt(dte*dtr)
        worst=max(worst,err)
    print(G.__name__, 'worst err metric', worst, 'time/pair', (time.time()-t0)/len(pairs))
m=MeshParametrized(UnitSquare())
with contextlib.redirect_stdout(io.StringIO()): SL=SingleLayerOperator(m)
e=list(m.leaf_elements)
print(ref(e[0],e[0],4,True), 0.23680355333817647868, ref(e[0],e[1],4,True), 0.0838829410097953185010223929460, ref(e[0],e[2],4,True),0.036534485699376823056)
