import sys, time, itertools
from fractions import Fraction as F
from src.mesh import Mesh
def rect(e): return (e.time_interval, e.space_interval)
def build(cfg, hist):
    glue, sx, st = cfg
    m = Mesh(glue_space=glue, initial_space_mesh=[F(x) for x in sx], initial_time_mesh=[F(t) for t in st])
    for (r, ax) in hist:
        for e in m.leaf_elements:
            if rect(e)==r: m.refine_axis(e, ax); break
        else: raise Exception('nf')
    return m
def geo_nbrs(m, e, side, glue, L):
    (t0,t1),(x0,x1)=rect(e); out=[]
    for f in m.leaf_elements:
        (s0,s1),(y0,y1)=rect(f)
        overT = t0<s1 and s0<t1; overX = x0<y1 and y0<x1
        if side=='right' and overT and (y0==x1 or (glue and x1==L and y0==0)): out.append(f)
        if side=='left' and overT and (y1==x0 or (glue and x0==0 and y1==L)): out.append(f)
        if side=='up' and overX and s0==t1: out.append(f)
        if side=='down' and overX and s1==t0: out.append(f)
    return out
def check(m, cfg):
    glue,sx,st=cfg; L=F(sx[-1]); T0,T1=F(st[0]),F(st[-1])
    leaves=list(m.leaf_elements)
    # tiling
    area=sum((e.time_interval[1]-e.time_interval[0])*(e.space_interval[1]-e.space_interval[0]) for e in leaves)
    assert area==(T1-T0)*L, 'area'
    for a,b in itertools.combinations(leaves,2):
        (t0,t1),(x0,x1)=rect(a); (s0,s1),(y0,y1)=rect(b)
        assert not (t0<s1 and s0<t1 and x0<y1 and y0<x1), 'overlap'
    # childless = leaves
    def walk(e):
        if not e.children: yield e
        else:
            for c in e.children: yield from walk(c)
    cl=[e for r in m.roots for e in walk(r)]
    assert set(cl)==set(leaves) and len(cl)==len(leaves), 'leafset'
    # vertices unique
    vs=[(v.t,v.x) for v in m.vertices]; assert len(vs)==len(set(vs)), 'dupvert'
    assert [v.idx for v in m.vertices]==list(range(len(vs))), 'vidx'
    # neighbours: edges order e0 (t=t0, bottom), e1 (x=x1,right), e2 (top), e3 (left)
    for e in leaves:
        for k,side in enumerate(['down','right','up','left']):
            got=e.edges[k].neighbour_elements(); exp=geo_nbrs(m,e,side,glue,L)
            assert set(got)==set(exp) and len(got)==len(exp)<=2, ('nbr',rect(e),side,[rect(x) for x in got],[rect(x) for x in exp])
            for f in got:
                assert abs(f.levels[0]-e.levels[0])<=1 and abs(f.levels[1]-e.levels[1])<=1, 'irr'
            onb = (side=='down' and e.time_interval[0]==T0) or (side=='up' and e.time_interval[1]==T1) or (side=='left' and e.space_interval[0]==0) or (side=='right' and e.space_interval[1]==L)
            assert e.edges[k].on_boundary==onb, 'bflag'
            assert e.edges[k].glued==(glue and side in('left','right') and onb), 'gflag'
def bfs(cfg, depth):
    seen={}; m0=build(cfg,[]); k0=frozenset(rect(e) for e in m0.leaf_elements); seen[k0]=[]; frontier=[k0]; n=0
    check(m0,cfg)
    for d in range(depth):
        nf=[]
        for k in frontier:
            hist=seen[k]
            for r in k:
                for ax in (0,1):
                    m2=build(cfg,hist+[(r,ax)]); k2=frozenset(rect(e) for e in m2.leaf_elements)
                    if k2 not in seen:
                        seen[k2]=hist+[(r,ax)]; nf.append(k2); check(m2,cfg); n+=1
        frontier=nf
    return len(seen)
for cfg,d in [((False,[0,1],[0,1]),5), ((True,[0,1],[0,1]),5), ((True,[0,1,3],[0,1]),4), ((True,[0,1,2,3],[0,2]),4), ((False,[0,1,2],[0,1,3]),4), ((True,[0,1,2,3],[0,1,2]),3)]:
    t=time.time()
    try:
        n=bfs(cfg,d); print(cfg,d,n,'states OK',round(time.time()-t,1),'s',flush=True)
    except AssertionError as ex:
        print(cfg,'FAIL',ex.args,flush=True)
