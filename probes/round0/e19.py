import numpy as np, io, contextlib, itertools, sys
from fractions import Fraction as Fr
from src.mesh import MeshParametrized, Vertex
from src.parametrization import Circle, UnitSquare, LShape
from src.single_layer import SingleLayerOperator
from src.hierarchical_error_estimator import DummyElement
import src.quadrature as Q
log=[]
_orig_int = SingleLayerOperator._SingleLayerOperator__integrate
def w_int(self,f,a,b,c,d):
    log.append(('call',a,b,c,d)); return _orig_int(self,f,a,b,c,d)
SingleLayerOperator._SingleLayerOperator__integrate = w_int
_orig_q = Q.QuadScheme2D.integrate
TAG={}
def w_q(self,f,a,b,c,d):
    log.append(('rule',TAG.get(id(self),'?'),a,b,c,d)); return _orig_q(self,f,a,b,c,d)
Q.QuadScheme2D.integrate = w_q
def mk(gamma_piece, t, x):
    v=[Vertex(t[0],x[0],-1),Vertex(t[0],x[1],-1),Vertex(t[1],x[1],-1),Vertex(t[1],x[0],-1)]
    return DummyElement(v,gamma_piece)
for G,split in [(UnitSquare,1),(Circle,4),(LShape,1)]:
    g=G(); m=MeshParametrized(g)
    with contextlib.redirect_stdout(io.StringIO()):
        SL=SingleLayerOperator(m)
    TAG.clear()
    TAG.update({id(SL.duff_log_log):'duffy', id(SL.duff_log_log.mirror_x()):'duffy_mx', id(SL.duff_log_log.mirror_y()):'duffy_my', id(SL.log_log.mirror_x()):'ll_mx', id(SL.log_log.mirror_y()):'ll_my', id(SL.log_log):'ll'})
    L=g.gamma_length
    # dyadic intervals: per root (the mesh's initial leaves), levels 0..3
    roots=[(e.space_interval, e.gamma_space) for e in m.leaf_elements]
    ivs=[]
    for (a,b),gm in roots:
        for l in range(0,4):
            for k in range(2**l):
                ivs.append(((a+(b-a)*k/2**l, a+(b-a)*(k+1)/2**l), gm))
    nerr=0; npairs=0; kinds={}
    bad=[]
    for (x1,g1),(x2,g2) in itertools.product(ivs,ivs):
        te=mk(g1,(0.0,1.0),x1); tr=mk(g2,(0.0,1.0),x2)
        log.clear(); npairs+=1
        try:
            SL.bilform(tr,te)
        except AssertionError as ex:
            nerr+=1; 
            if len(bad)<5: bad.append((x1,x2))
            continue
        # checks: terminal panels tile
        (a,b),(c,d) = (x1,x2) if (x1<=x2) else (x2,x1)
        area=sum((r[3]-r[2])*(r[5]-r[4]) for r in log if r[0]=='rule')
        if abs(area-(b-a)*(d-c))>1e-12: bad.append(('area',x1,x2))
        for r in log:
            if r[0]!='rule': continue
            tag,pa,pb,pc,pd=r[1:]
            # singular points in closed panel: diagonal x=y within [pa,pb]∩[pc,pd]; seam (0,L)
            lo=max(pa,pc); hi=min(pb,pd)
            diag = None if lo>hi else (lo,hi)
            seam = (pa==0 and pd==L)
            ok=True
            if tag=='duffy': ok = (pa==pc and pb==pd) and not seam
            elif tag=='duffy_mx': ok = diag is not None and lo==hi==pb==pc and not seam
            elif tag=='duffy_my': ok = (seam and diag is None) or (diag is not None and lo==hi and pa==pd)
            elif tag in('ll_mx','ll_my'): ok = diag is None and not seam
            else: ok=False
            kinds[tag]=kinds.get(tag,0)+1
            if not ok and len(bad)<12: bad.append(('sing',tag,(pa,pb,pc,pd),x1,x2))
    print(G.__name__, 'pairs',npairs,'assert errors',nerr, 'kinds',kinds, 'bad',bad[:6])
