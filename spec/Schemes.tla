------------------------------ MODULE Schemes ------------------------------
(***************************************************************************)
(* The algebra of derived quadrature schemes of src/quadrature.py: mapping   *)
(* to boxes, mirrors, tensor products, the 2-D Duffy scheme and the two 3-D    *)
(* Duffy schemes, with the calculus of polynomial exactness:                   *)
(*   deg(Product) = min, deg(Duffy2) = deg - 1, deg(Duffy3) = deg - 2,          *)
(*   mirrors and affine maps preserve degree and (relative) measure.            *)
(* Terms are records; the reachable states of the model are all terms up to the  *)
(* stated depth over the base rules, each of which is a test case.               *)
(***************************************************************************)
EXTENDS Integers, Sequences, FiniteSets, TLC

CONSTANTS BaseRules      \* set of records [fam, key, deg]: unweighted 1-D rules with their polynomial degree

VARIABLES term
Base(b) == [op |-> "base", fam |-> b.fam, key |-> b.key, deg |-> b.deg]
M1(t) == [op |-> "mirror", arg |-> t]
P2(s, t) == [op |-> "product2", a |-> s, b |-> t]
MX(t) == [op |-> "mirror_x", arg |-> t]
MY(t) == [op |-> "mirror_y", arg |-> t]
MZ(t) == [op |-> "mirror_z", arg |-> t]
D2(t, sym) == [op |-> "duffy2", sym |-> sym, arg |-> t]
P3(s) == [op |-> "product3", a |-> s]
DI(t, sym) == [op |-> "duffy_id3", sym |-> sym, arg |-> t]
DT(t) == [op |-> "duffy_touch3", arg |-> t]

RECURSIVE Dim(_), Deg(_)
Dim(t) == CASE t.op = "base" -> 1 [] t.op = "mirror" -> 1
            [] t.op \in {"product2", "duffy2"} -> 2
            [] t.op \in {"product3", "duffy_id3", "duffy_touch3"} -> 3
            [] t.op \in {"mirror_x", "mirror_y", "mirror_z"} -> Dim(t.arg)
Deg(t) == CASE t.op = "base" -> t.deg
            [] t.op \in {"mirror", "mirror_x", "mirror_y", "mirror_z"} -> Deg(t.arg)
            [] t.op = "product2" -> (IF Deg(t.a) < Deg(t.b) THEN Deg(t.a) ELSE Deg(t.b))
            [] t.op = "product3" -> Deg(t.a)
            [] t.op = "duffy2" -> Deg(t.arg) - 1
            [] t.op \in {"duffy_id3", "duffy_touch3"} -> Deg(t.arg) - 2
\* the symmetric Duffy variants integrate only integrands symmetric in (x, y) exactly
NeedsSymmetric(t) == (t.op = "duffy2" /\ t.sym) \/ (t.op = "duffy_id3" /\ t.sym)
                     \/ (t.op \in {"mirror_x", "mirror_y", "mirror_z"} /\ FALSE)

B1 == {Base(b) : b \in BaseRules}
T1 == B1 \cup {M1(b) : b \in B1}
T2p == {P2(s, s) : s \in T1} \cup {P2(s, M1(s)) : s \in B1}
T2 == T2p \cup {MX(t) : t \in T2p} \cup {MY(t) : t \in T2p} \cup {MX(MY(t)) : t \in T2p}
T2d == {D2(t, sym) : t \in {P2(s, s) : s \in B1}, sym \in BOOLEAN}
T2dm == T2d \cup {MX(t) : t \in {d \in T2d : ~d.sym}} \cup {MY(t) : t \in {d \in T2d : ~d.sym}}
T3p == {P3(s) : s \in B1}
T3 == T3p \cup {MX(t) : t \in T3p} \cup {MY(t) : t \in T3p} \cup {MZ(t) : t \in T3p}
      \cup {DI(t, sym) : t \in T3p, sym \in BOOLEAN} \cup {DT(t) : t \in T3p}
      \cup {MZ(DT(t)) : t \in T3p} \cup {MX(DI(t, FALSE)) : t \in T3p}
Terms == T1 \cup T2 \cup T2dm \cup T3

Init == term \in Terms
Next == UNCHANGED term
Spec == Init /\ [][Next]_term

\* the calculus never promises a negative degree for the shipped rules used with Duffy schemes,
\* and every derived scheme keeps unit measure on the unit box
DegreeSane == Deg(term) >= -2 /\ Dim(term) \in 1..3
=============================================================================
