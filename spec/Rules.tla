------------------------------- MODULE Rules -------------------------------
(***************************************************************************)
(* The rule registry of src/quadrature_rules.py as extracted from the       *)
(* source text (module RulesData, regenerated on every run) and the          *)
(* obligations it carries: which (family, key, basis function, degree)        *)
(* quadruples must be integrated exactly, which keys the scheme constructors   *)
(* of src/quadrature.py and their callers request, and the discrete facts       *)
(* every entry must satisfy (returns, as many weights as nodes).                *)
(***************************************************************************)
EXTENDS RulesData, FiniteSets, TLC

VARIABLE done
Init == done = FALSE
Next == done' = TRUE
Spec == Init /\ [][Next]_done

Fams == {"log", "loglog", "sqrt", "sqrtinv", "gsqrtinv", "gx", "glog"}
Entry(fam, key) == CHOOSE r \in Registry : r.fam = fam /\ r.key = key
HasKey(fam, key) == \E r \in Registry : r.fam = fam /\ r.key = key

\* discrete registry facts
EveryKeyReturns == \A r \in Registry : r.ret
CountsMatch == \A r \in Registry : r.nn = r.nw /\ r.nn >= 1
KeysUnique == \A r, s \in Registry : (r.fam = s.fam /\ r.key = s.key) => r = s
ExportedAvailable == \A e \in Exported : HasKey(e[1], e[2]) /\ Entry(e[1], e[2]).ret
KnownFamilies == \A r \in Registry : r.fam \in Fams

\* scheme constructors: requested key as a function of the argument (src/quadrature.py), for the
\* arguments the code base itself uses
GaussKey(npoly) == <<(npoly + 1) \div 2>>
Requests ==
     {<<"gsqrtinv", GaussKey(n)>> : n \in {m \in 1..23 : m % 2 = 1}}       \* Slobodeckij H^{1/4}: orders 1..23
  \cup {<<"gx", GaussKey(n)>> : n \in {m \in 1..21 : m % 2 = 1}}            \* Slobodeckij H^{1/2}: orders 1..21
  \cup {<<"log", <<12, 12>>>>}                                              \* SingleLayerOperator / InitialOperator (quad_order 12)
ConstructorsLand == \A q \in Requests : HasKey(q[1], q[2]) /\ Entry(q[1], q[2]).ret
\* a Gauss rule requested for polynomial degree 2N-1 needs at least N points
GaussEnoughPoints == \A r \in Registry : r.fam \in {"gsqrtinv", "gx"} => r.nn >= r.key[1]

\* numerical obligations: <<family, key, part, degree>>
Second(fam) == CASE fam = "log" -> "log" [] fam = "loglog" -> "log" [] fam = "sqrt" -> "sqrt" [] fam = "sqrtinv" -> "sqrtinv"
ObligationsOf(r) ==
  IF r.fam \in {"log", "loglog", "sqrt", "sqrtinv"}
  THEN {<<r.fam, r.key, "poly", k>> : k \in 0..r.key[1]}
       \cup {<<r.fam, r.key, Second(r.fam), k>> : k \in 0..r.key[2]}
       \cup (IF r.fam = "loglog" THEN {<<r.fam, r.key, "log1m", k>> : k \in 0..r.key[2]} ELSE {})
  ELSE {<<r.fam, r.key, "w", k>> : k \in 0..(2 * r.nn - 1)}
Obligations == UNION {ObligationsOf(r) : r \in Registry}
ShapeObligations == {<<r.fam, r.key>> : r \in Registry}
=============================================================================
