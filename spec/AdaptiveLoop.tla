---------------------------- MODULE AdaptiveLoop ----------------------------
(***************************************************************************)
(* The protocol of the adaptive driver example.py: configuration table of    *)
(* problems.problem_helper, then per iteration                                *)
(*   dump mesh, assemble V, load vector (-M0 u0 + g), solve, [trace error],    *)
(*   [h-h/2], [hierarchical], residual, [weighted L2], dump, [Sobolev], dump,   *)
(*   choose estimator, refine (uniform | isotropic | anisotropic), [grading].  *)
(* The model is code-shaped: the two gmsh dumps after the L2 and the Sobolev    *)
(* estimators use their results unconditionally, so switching either estimator  *)
(* off ends in a NameError (observed; outside the listed properties); marking    *)
(* by an estimator that was switched off fails the driver's own assertion.       *)
(* The observation contract of C03 is attached to the phase "residual".          *)
(***************************************************************************)
EXTENDS Integers, FiniteSets, Sequences, TLC

CONSTANTS MaxIter

Problems == {"Smooth", "Singular", "Dirichlet", "MildSingular"}
Domains == {"UnitSquare", "PiSquare", "LShape", "Circle"}
Refinements == {"uniform", "isotropic", "anisotropic"}
EstimatorsSet == {"sobolev", "hierarchical", "sobolev-l2"}

\* problem_helper's acceptance table
Accepted(p, d) ==
  CASE p = "Smooth" -> d \in {"UnitSquare", "PiSquare"}
    [] p = "Singular" -> d \in {"UnitSquare", "LShape"}
    [] OTHER -> TRUE
HasU0(p) == p \in {"Smooth", "Singular"}
HasG(p) == p \in {"Dirichlet", "MildSingular"}
HasTrace(p) == p = "Smooth"
\* initial potentials need a domain mesh: only the three polygons provide one
HasDomainMesh(d) == d # "Circle"

VARIABLES cfg, phase, k, have, err,
          obs,      \* the observable steps of the current iteration, in order (what the trace recorder sees)
          meshobj   \* identity of the mesh object the loop iterates over (the operators were built with object 0)
vars == <<cfg, phase, k, have, err, obs, meshobj>>

Configs == [problem : Problems, domain : Domains, exact : BOOLEAN, hh2 : BOOLEAN, hier : BOOLEAN, l2 : BOOLEAN, sobolev : BOOLEAN,
            refinement : Refinements, estimator : EstimatorsSet, grading : BOOLEAN]
Init == cfg \in Configs /\ phase = "configure" /\ k = 0 /\ have = {} /\ err = "none" /\ obs = <<>> /\ meshobj = 0

Goto(p) == phase' = p /\ UNCHANGED <<cfg, k, have, err, obs, meshobj>>
See(p, e) == phase' = p /\ obs' = Append(obs, e) /\ UNCHANGED <<cfg, k, have, err, meshobj>>
Fail(e) == err' = e /\ phase' = "failed" /\ UNCHANGED <<cfg, k, have, obs, meshobj>>

Configure ==
  /\ phase = "configure"
  /\ IF ~Accepted(cfg.problem, cfg.domain) THEN Fail("problem_helper: invalid domain for problem")
     ELSE Goto("assemble")
Assemble == phase = "assemble" /\ See("rhs", "assemble")
\* -M0 u0 through InitialOperator.linform_vector (observable), + g through a closure of problems.py (not observable)
LoadVector == phase = "rhs" /\ (IF HasU0(cfg.problem) THEN See("solve", "rhs") ELSE Goto("solve"))
Solve == phase = "solve" /\ phase' = "after_solve" /\ have' = have \cup {"Phi"} /\ obs' = Append(obs, "solve") /\ UNCHANGED <<cfg, k, err, meshobj>>
HH2 == phase = "after_solve" /\ (IF cfg.hh2 THEN See("hh2", "hh2") ELSE Goto("hier?"))
HH2Done == phase = "hh2" /\ Goto("hier?")
\* the hierarchical estimator is read from its file whenever that exists (left by an earlier run in this directory:
\* Sessions.tla), whatever the flag says; otherwise it is computed if switched on
Hier ==
  /\ phase = "hier?"
  /\ phase' = "residual" /\ UNCHANGED <<cfg, k, err, meshobj>>
  /\ \/ have' = have \cup {"hierarch"} /\ obs' = Append(obs, "hier-loaded")
     \/ have' = (IF cfg.hier THEN have \cup {"hierarch"} ELSE have) /\ obs' = (IF cfg.hier THEN Append(obs, "hier") ELSE obs)
\* the residual closure is built here: C03's contract is evaluated on it
Residual == phase = "residual" /\ "Phi" \in have /\ phase' = "l2?" /\ have' = have \cup {"residual"}
            /\ obs' = Append(obs, "residual") /\ UNCHANGED <<cfg, k, err, meshobj>>
L2 ==
  /\ phase = "l2?"
  /\ phase' = "dump_l2" /\ have' = (IF cfg.l2 THEN have \cup {"weighted_l2"} ELSE have)
  /\ obs' = (IF cfg.l2 THEN Append(obs, "l2") ELSE obs) /\ UNCHANGED <<cfg, k, err, meshobj>>
DumpL2 ==
  /\ phase = "dump_l2"
  /\ IF "weighted_l2" \notin have THEN Fail("NameError: weighted_l2") ELSE Goto("sobolev?")
Sobolev ==
  /\ phase = "sobolev?"
  /\ phase' = "dump_sobolev" /\ have' = (IF cfg.sobolev THEN have \cup {"sobolev"} ELSE have)
  /\ obs' = (IF cfg.sobolev THEN Append(obs, "sobolev") ELSE obs) /\ UNCHANGED <<cfg, k, err, meshobj>>
DumpSobolev ==
  /\ phase = "dump_sobolev"
  /\ IF "sobolev" \notin have THEN Fail("NameError: sobolev") ELSE Goto("mark")
Mark ==
  /\ phase = "mark"
  /\ LET need == CASE cfg.estimator = "hierarchical" -> {"hierarch"} [] cfg.estimator = "sobolev" -> {"sobolev"}
                   [] cfg.estimator = "sobolev-l2" -> {"sobolev", "weighted_l2"} IN
     IF ~(need \subseteq have) \/ (cfg.estimator = "hierarchical" /\ ~cfg.hier) THEN Fail("assert: estimator for marking was not computed")
     ELSE Goto("refine")
Refine == phase = "refine" /\ See(IF cfg.grading THEN "grade" ELSE "next", "refine")
\* adaptive refinements are post-processed by Mesh.refine_grading on the same mesh object; for uniform refinement the
\* driver instead builds a *new* graded tensor mesh (unit square and L-shape only; silently nothing on the other two
\* domains) and rebinds its local name: the operators and estimators keep the mesh object they were built with
RegridDomains == {"UnitSquare", "LShape"}
Grade ==
  /\ phase = "grade"
  /\ IF cfg.refinement # "uniform" THEN See("next", "grade")
     ELSE IF cfg.domain \in RegridDomains
          THEN phase' = "next" /\ meshobj' = meshobj + 1 /\ UNCHANGED <<cfg, k, have, err, obs>>
          ELSE Goto("next")
NextIter ==
  /\ phase = "next" /\ k < MaxIter
  /\ k' = k + 1 /\ phase' = "assemble" /\ obs' = <<>> /\ UNCHANGED <<cfg, err, meshobj>>
  \* results of the previous iteration stay bound to their names
  /\ have' = have \ {"Phi", "residual"}

Next == Configure \/ Assemble \/ LoadVector \/ Solve \/ HH2 \/ HH2Done \/ Hier \/ Residual \/ L2 \/ DumpL2 \/ Sobolev \/ DumpSobolev
        \/ Mark \/ Refine \/ Grade \/ NextIter
Spec == Init /\ [][Next]_vars

\* with the default flags (and any accepted problem/domain, refinement, grading) the loop never fails
DefaultFlags(c) == c.l2 /\ c.sobolev /\ (c.estimator = "hierarchical" => c.hier)
DefaultsRun == (Accepted(cfg.problem, cfg.domain) /\ DefaultFlags(cfg)) => err = "none"
\* the residual is only ever built from a solved density
ResidualAfterSolve == phase = "l2?" => "Phi" \in have
\* rejected combinations fail in the helper and nowhere else
RejectedFailEarly == (~Accepted(cfg.problem, cfg.domain) /\ err # "none") => k = 0
\* (diagnostic; expected to be violated) switching an estimator off never fails
AnyFlagsRun == Accepted(cfg.problem, cfg.domain) => err = "none"

\* the observable steps of one complete iteration are a function of the configuration alone
Opt(b, e) == IF b THEN <<e>> ELSE <<>>
ExpectedIterF(c, file) ==
  <<"assemble">> \o Opt(HasU0(c.problem), "rhs") \o <<"solve">> \o Opt(c.hh2, "hh2") \o Opt(file, "hier-loaded") \o Opt(c.hier /\ ~file, "hier") \o <<"residual">>
  \o Opt(c.l2, "l2") \o Opt(c.sobolev, "sobolev") \o <<"refine">> \o Opt(c.grading /\ c.refinement # "uniform", "grade")
ExpectedIter(c) == ExpectedIterF(c, FALSE)
ProtocolFixed == phase = "next" => \E file \in BOOLEAN : obs = ExpectedIterF(cfg, file)
IsPrefixOf(a, b) == Len(a) <= Len(b) /\ \A i \in 1..Len(a) : a[i] = b[i]
ProtocolPrefix == err = "none" => \E file \in BOOLEAN : IsPrefixOf(obs, ExpectedIterF(cfg, file))
\* (diagnostic; expected to be violated) the operators always hold the mesh object the loop iterates over
OperatorsSeeLoopMesh == meshobj = 0

AcceptedCombos == {<<p, d>> \in Problems \X Domains : Accepted(p, d)}
=============================================================================
