---------------------------- MODULE AdaptiveLoop ----------------------------
(***************************************************************************)
(* The protocol of the adaptive driver example.py: configuration table of    *)
(* problems.problem_helper, then per iteration                                *)
(*   dump mesh, assemble V, load vector (-M0 u0 + g), solve, [trace error],    *)
(*   [h-h/2], [hierarchical], residual, [weighted L2], dump, [Sobolev], dump,   *)
(*   choose estimator, refine (uniform | isotropic | anisotropic), [grading].  *)
(* The model is code-shaped: the two gmsh dumps after the L2 and the Sobolev    *)
(* estimators use their results unconditionally, so switching either estimator  *)
(* off ends in a NameError (observed; outside the listed properties); marking    *)
(* by an estimator that was switched off fails the driver's own assertion.       *)
(* The observation contract of C03 is attached to the phase "residual".          *)
(***************************************************************************)
EXTENDS Integers, FiniteSets, Sequences, TLC

CONSTANTS MaxIter

Problems == {"Smooth", "Singular", "Dirichlet", "MildSingular"}
Domains == {"UnitSquare", "PiSquare", "LShape", "Circle"}
Refinements == {"uniform", "isotropic", "anisotropic"}
EstimatorsSet == {"sobolev", "hierarchical", "sobolev-l2"}

\* problem_helper's acceptance table
Accepted(p, d) ==
  CASE p = "Smooth" -> d \in {"UnitSquare", "PiSquare"}
    [] p = "Singular" -> d \in {"UnitSquare", "LShape"}
    [] OTHER -> TRUE
HasU0(p) == p \in {"Smooth", "Singular"}
HasG(p) == p \in {"Dirichlet", "MildSingular"}
HasTrace(p) == p = "Smooth"
\* initial potentials need a domain mesh: only the three polygons provide one
HasDomainMesh(d) == d # "Circle"

VARIABLES cfg, phase, k, have, err
vars == <<cfg, phase, k, have, err>>

Configs == [problem : Problems, domain : Domains, exact : BOOLEAN, hh2 : BOOLEAN, hier : BOOLEAN, l2 : BOOLEAN, sobolev : BOOLEAN,
            refinement : Refinements, estimator : EstimatorsSet, grading : BOOLEAN]
Init == cfg \in Configs /\ phase = "configure" /\ k = 0 /\ have = {} /\ err = "none"

Goto(p) == phase' = p /\ UNCHANGED <<cfg, k, have, err>>
Fail(e) == err' = e /\ phase' = "failed" /\ UNCHANGED <<cfg, k, have>>

Configure ==
  /\ phase = "configure"
  /\ IF ~Accepted(cfg.problem, cfg.domain) THEN Fail("problem_helper: invalid domain for problem")
     ELSE Goto("assemble")
Assemble == phase = "assemble" /\ Goto("rhs")
LoadVector == phase = "rhs" /\ Goto("solve")
Solve == phase = "solve" /\ phase' = "after_solve" /\ have' = have \cup {"Phi"} /\ UNCHANGED <<cfg, k, err>>
HH2 == phase = "after_solve" /\ Goto(IF cfg.hh2 THEN "hh2" ELSE "hier?")
HH2Done == phase = "hh2" /\ Goto("hier?")
Hier ==
  /\ phase = "hier?"
  /\ phase' = "residual" /\ have' = (IF cfg.hier THEN have \cup {"hierarch"} ELSE have) /\ UNCHANGED <<cfg, k, err>>
\* the residual closure is built here: C03's contract is evaluated on it
Residual == phase = "residual" /\ "Phi" \in have /\ phase' = "l2?" /\ have' = have \cup {"residual"} /\ UNCHANGED <<cfg, k, err>>
L2 ==
  /\ phase = "l2?"
  /\ phase' = "dump_l2" /\ have' = (IF cfg.l2 THEN have \cup {"weighted_l2"} ELSE have) /\ UNCHANGED <<cfg, k, err>>
DumpL2 ==
  /\ phase = "dump_l2"
  /\ IF "weighted_l2" \notin have THEN Fail("NameError: weighted_l2") ELSE Goto("sobolev?")
Sobolev ==
  /\ phase = "sobolev?"
  /\ phase' = "dump_sobolev" /\ have' = (IF cfg.sobolev THEN have \cup {"sobolev"} ELSE have) /\ UNCHANGED <<cfg, k, err>>
DumpSobolev ==
  /\ phase = "dump_sobolev"
  /\ IF "sobolev" \notin have THEN Fail("NameError: sobolev") ELSE Goto("mark")
Mark ==
  /\ phase = "mark"
  /\ LET need == CASE cfg.estimator = "hierarchical" -> {"hierarch"} [] cfg.estimator = "sobolev" -> {"sobolev"}
                   [] cfg.estimator = "sobolev-l2" -> {"sobolev", "weighted_l2"} IN
     IF ~(need \subseteq have) \/ (cfg.estimator = "hierarchical" /\ ~cfg.hier) THEN Fail("assert: estimator for marking was not computed")
     ELSE Goto("refine")
Refine == phase = "refine" /\ Goto(IF cfg.grading THEN "grade" ELSE "next")
Grade == phase = "grade" /\ Goto("next")
NextIter ==
  /\ phase = "next" /\ k < MaxIter
  /\ k' = k + 1 /\ phase' = "assemble" /\ UNCHANGED <<cfg, err>>
  \* results of the previous iteration stay bound to their names
  /\ have' = have \ {"Phi", "residual"}

Next == Configure \/ Assemble \/ LoadVector \/ Solve \/ HH2 \/ HH2Done \/ Hier \/ Residual \/ L2 \/ DumpL2 \/ Sobolev \/ DumpSobolev
        \/ Mark \/ Refine \/ Grade \/ NextIter
Spec == Init /\ [][Next]_vars

\* with the default flags (and any accepted problem/domain, refinement, grading) the loop never fails
DefaultFlags(c) == c.l2 /\ c.sobolev /\ (c.estimator = "hierarchical" => c.hier)
DefaultsRun == (Accepted(cfg.problem, cfg.domain) /\ DefaultFlags(cfg)) => err = "none"
\* the residual is only ever built from a solved density
ResidualAfterSolve == phase = "l2?" => "Phi" \in have
\* rejected combinations fail in the helper and nowhere else
RejectedFailEarly == (~Accepted(cfg.problem, cfg.domain) /\ err # "none") => k = 0
\* (diagnostic; expected to be violated) switching an estimator off never fails
AnyFlagsRun == Accepted(cfg.problem, cfg.domain) => err = "none"

AcceptedCombos == {<<p, d>> \in Problems \X Domains : Accepted(p, d)}
=============================================================================
