----------------------------- MODULE ParamInit -----------------------------
(***************************************************************************)
(* MeshParametrized.__init__ (src/mesh.py) on an abstract piecewise curve:   *)
(* pieces of integer length, closed or open.  The initial space grid contains *)
(* all break points plus any subset of the piece mid points; the initial time  *)
(* grid has 1..MaxSlabs slabs.  Construct is code-shaped: piece assignment by  *)
(* `pw_start[i] <= x0 < pw_start[i+1]`, then the "at least three elements"     *)
(* guard with two rounds of space bisection.  GuardPerSlab = FALSE is the guard *)
(* as originally written (`len(self.roots) < 3` counts the roots of all slabs). *)
(* Lengths are in half units (a piece of length n spans 2n) so that mid points  *)
(* and the quarter points of the guard are integers after scaling by 4.         *)
(***************************************************************************)
EXTENDS Integers, FiniteSets, Sequences, SequencesExt, TLC

CONSTANTS Pieces,       \* sequence of piece lengths (positive integers)
          Closed,
          MaxSlabs,
          GuardPerSlab

VARIABLES phase, nt, xs, elems
vars == <<phase, nt, xs, elems>>

SC == 8                                           \* scale: 1 length unit = 8 grid units
NP == Len(Pieces)
RECURSIVE StartOf(_)
StartOf(i) == IF i = 1 THEN 0 ELSE StartOf(i - 1) + SC * Pieces[i - 1]     \* pw_start[i-1]
Breaks == {StartOf(i) : i \in 1..(NP + 1)}
L == StartOf(NP + 1)
Mids == {StartOf(i) + (SC \div 2) * Pieces[i] : i \in 1..NP}
PieceOf(x0) == CHOOSE i \in 1..NP : StartOf(i) <= x0 /\ x0 < StartOf(i + 1)

Init == /\ phase = "cfg" /\ nt \in 1..MaxSlabs /\ xs \in {Breaks \cup E : E \in SUBSET Mids} /\ elems = {}

\* the construction as a function of the configuration (used by the action and by the trace judge)
SortedSet(S) == SetToSortSeq(S, LAMBDA a, b : a < b)
RootsOf(n, X) == LET g == SortedSet(X) IN
  {[slab |-> j, x0 |-> g[i], x1 |-> g[i + 1], piece |-> PieceOf(g[i]), lx |-> 0] : j \in 1..n, i \in 1..(Cardinality(X) - 1)}
HalveE(e) == LET m == (e.x0 + e.x1) \div 2 IN
  {[e EXCEPT !.x1 = m, !.lx = e.lx + 1], [e EXCEPT !.x0 = m, !.lx = e.lx + 1]}
GuardFiresFor(n, X) == Closed /\ (IF GuardPerSlab THEN Cardinality(X) - 1 ELSE n * (Cardinality(X) - 1)) < 3
ElemsAfterConstruct(n, X) ==
  IF GuardFiresFor(n, X) THEN UNION {HalveE(c) : c \in UNION {HalveE(r) : r \in RootsOf(n, X)}} ELSE RootsOf(n, X)

Halve(e) == LET m == (e.x0 + e.x1) \div 2 IN
  {[e EXCEPT !.x1 = m, !.lx = e.lx + 1], [e EXCEPT !.x0 = m, !.lx = e.lx + 1]}

Construct ==
  /\ phase = "cfg"
  /\ phase' = "mesh"
  /\ elems' = ElemsAfterConstruct(nt, xs)
  /\ UNCHANGED <<nt, xs>>

\* any later space bisection of a leaf (children inherit the piece); time bisections do not
\* change the clauses below.  One level suffices to exercise inheritance in the model.
Bisect(e) ==
  /\ phase = "mesh" /\ elems = ElemsAfterConstruct(nt, xs)
  /\ elems' = (elems \ {e}) \cup Halve(e)
  /\ UNCHANGED <<phase, nt, xs>>

Next == Construct \/ \E e \in elems : Bisect(e)
Spec == Init /\ [][Next]_vars

\* every element sits on exactly the piece that contains its parameter interval
PieceOK == \A e \in elems : StartOf(e.piece) <= e.x0 /\ e.x1 <= StartOf(e.piece + 1)
\* on a closed curve every slab has at least three elements around the curve ...
MinThree == (phase = "mesh" /\ Closed) => \A j \in 1..nt : Cardinality({e \in elems : e.slab = j}) >= 3
\* ... so that two distinct elements of a slab touch in at most one end point
TouchOnce == (phase = "mesh" /\ Closed) =>
  \A e, f \in elems : (e # f /\ e.slab = f.slab) =>
     ~((e.x1 = f.x0 \/ (e.x1 = L /\ f.x0 = 0)) /\ (f.x1 = e.x0 \/ (f.x1 = L /\ e.x0 = 0)))
TilesSlab == phase = "mesh" => \A j \in 1..nt :
  LET S == {e \in elems : e.slab = j} IN
  /\ \A e, f \in S : e # f => (e.x1 <= f.x0 \/ f.x1 <= e.x0)
  /\ \A e \in S : e.x0 = 0 \/ \E f \in S : f.x1 = e.x0
  /\ \E e \in S : e.x1 = L
=============================================================================
