------------------------------ MODULE Polygon ------------------------------
(***************************************************************************)
(* Rectilinear lattice polygons accepted by PiecewisePolygon (src/           *)
(* parametrization.py): consecutive vertices joined by axis-parallel          *)
(* segments of integer length, first vertex = last vertex when closed.  The   *)
(* state is the walk built so far; every closed walk (and every open prefix   *)
(* with at least one side) is a test case for the real constructor.           *)
(***************************************************************************)
EXTENDS Integers, Sequences, FiniteSets, TLC

CONSTANTS G,          \* lattice 0..G x 0..G
          MaxSides

VARIABLES walk, closed
vars == <<walk, closed>>

Pt == (0..G) \X (0..G)
Init == walk \in {<<p>> : p \in {<<0, 0>>, <<1, 0>>}} /\ closed = FALSE

LastP == walk[Len(walk)]
Horizontal(a, b) == a[2] = b[2] /\ a[1] # b[1]
Vertical(a, b) == a[1] = b[1] /\ a[2] # b[2]
\* alternate directions (a straight continuation would be the same side), stay on the lattice
Step(p) ==
  /\ ~closed /\ Len(walk) <= MaxSides
  /\ Horizontal(LastP, p) \/ Vertical(LastP, p)
  /\ Len(walk) >= 2 => (Horizontal(walk[Len(walk) - 1], LastP) <=> Vertical(LastP, p))
  /\ walk' = Append(walk, p)
  /\ closed' = (p = walk[1] /\ Len(walk) >= 3)
Next == \E p \in Pt : Step(p)
Spec == Init /\ [][Next]_vars

SideLen(i) == LET a == walk[i]  b == walk[i + 1] IN
  (IF a[1] > b[1] THEN a[1] - b[1] ELSE b[1] - a[1]) + (IF a[2] > b[2] THEN a[2] - b[2] ELSE b[2] - a[2])
RECURSIVE Perim(_)
Perim(i) == IF i = 0 THEN 0 ELSE SideLen(i) + Perim(i - 1)
\* a closed lattice walk has even perimeter and at least four sides (the first and the last side
\* may be collinear: the start point need not be a corner, the constructor does not care)
ClosedEven == closed => (Len(walk) - 1 >= 4 /\ Perim(Len(walk) - 1) % 2 = 0)
=============================================================================
