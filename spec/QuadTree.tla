------------------------------ MODULE QuadTree ------------------------------
(***************************************************************************)
(* The domain quadtree of src/initial_mesh.py (InitialMesh): square cells,  *)
(* red refinement into four, 2:1 balance through the parent-edge recursion   *)
(* of `InitialMesh.refine`, and boundary-targeted refinement                 *)
(* `refine_msh_bdr`.                                                          *)
(*                                                                         *)
(* Geometry is integer: root (ix, iy) occupies [ix*U, (ix+1)*U] x [iy*U,     *)
(* (iy+1)*U], U = 2^MaxLevel.  A cell is [x, y, h, l].  The unit square and   *)
(* the pi square are one root; the L-shape is the three roots (1,0), (1,1),   *)
(* (0,1) (the code's coordinates shifted by (+1, +1)).                        *)
(***************************************************************************)
EXTENDS Integers, FiniteSets, Sequences, TLC

CONSTANTS RootPos,     \* set of <<ix, iy>>
          MaxLevel,
          Budget,      \* number of cell subdivisions up to which states are expanded
          SegMaxL,     \* boundary segments [k/2^l, (k+1)/2^l] of every unit piece, l <= SegMaxL
          Ops

VARIABLES leaves,      \* set of leaf cells
          err,
          last

vars == <<leaves, err, last>>

U == 2^MaxLevel
Cell(x, y, h, l) == [x |-> x, y |-> y, h |-> h, l |-> l]
RootCells == {Cell(p[1] * U, p[2] * U, U, 0) : p \in RootPos}

InDomainSq(x, y, h) == \E p \in RootPos : p[1] * U <= x /\ x + h <= (p[1] + 1) * U /\ p[2] * U <= y /\ y + h <= (p[2] + 1) * U
InsideC(a, x, y, h) == x <= a.x /\ a.x + a.h <= x + h /\ y <= a.y /\ a.y + a.h <= y + h
OverlapC(a, b) == a.x < b.x + b.h /\ b.x < a.x + a.h /\ a.y < b.y + b.h /\ b.y < a.y + a.h

\* sides like Element.edges: 1 bottom (v0,v1), 2 right (v1,v2), 3 top (v2,v3), 4 left (v3,v0)
NbrSq(c, s) == CASE s = 1 -> <<c.x, c.y - c.h>> [] s = 2 -> <<c.x + c.h, c.y>>
                 [] s = 3 -> <<c.x, c.y + c.h>> [] s = 4 -> <<c.x - c.h, c.y>>
\* leaves sharing a piece of positive length with side s of c
Adj(S, c, s) ==
  CASE s = 1 -> {d \in S : d.y + d.h = c.y /\ d.x < c.x + c.h /\ c.x < d.x + d.h}
    [] s = 3 -> {d \in S : d.y = c.y + c.h /\ d.x < c.x + c.h /\ c.x < d.x + d.h}
    [] s = 2 -> {d \in S : d.x = c.x + c.h /\ d.y < c.y + c.h /\ c.y < d.y + d.h}
    [] s = 4 -> {d \in S : d.x + d.h = c.x /\ d.y < c.y + c.h /\ c.y < d.y + d.h}
AllAdj(S, c) == UNION {Adj(S, c, s) : s \in 1..4}

Kids(c) == LET g == c.h \div 2 IN
  {Cell(c.x, c.y, g, c.l + 1), Cell(c.x + g, c.y, g, c.l + 1), Cell(c.x + g, c.y + g, g, c.l + 1), Cell(c.x, c.y + g, g, c.l + 1)}

Let(v, Op(_)) == CHOOSE r \in {Op(x) : x \in {v}} : TRUE

(* Code-shaped refine(): for each side without a same-level neighbour ever created, refine the
   coarser neighbour across the parent edge first.  State [S, ok]. *)
RECURSIVE RefQ(_, _), SideLoop(_, _, _)
RefQ(st0, c) == Let(st0, LAMBDA st :
  IF ~st.ok THEN st
  ELSE IF c \notin st.S THEN [st EXCEPT !.ok = FALSE]
  ELSE Let(SideLoop(st, c, 1), LAMBDA st1 :
       IF ~st1.ok \/ c \notin st1.S THEN [st1 EXCEPT !.ok = FALSE]
       ELSE [st1 EXCEPT !.S = (st1.S \ {c}) \cup Kids(c)]))
SideLoop(st0, c, s) == Let(st0, LAMBDA st :
  IF s > 4 \/ ~st.ok THEN st
  ELSE LET q == NbrSq(c, s) IN
       IF ~InDomainSq(q[1], q[2], c.h) THEN SideLoop(st, c, s + 1)                    \* boundary edge
       ELSE IF \E d \in st.S : InsideC(d, q[1], q[2], c.h) THEN SideLoop(st, c, s + 1) \* (b, a) in nbrs
       ELSE LET d == CHOOSE d \in st.S : InsideC(Cell(q[1], q[2], c.h, c.l), d.x, d.y, d.h) IN
            IF d.l = c.l - 1 THEN SideLoop(RefQ(st, d), c, s + 1)    \* nbrs[(pb, pa)], one level up
            ELSE SideLoop(st, c, s + 1))                             \* no twin of the parent edge either: nothing done

(* Declarative: least 2:1-balanced refinement in which all cells of M are subdivided *)
RECURSIVE FixQ(_, _)
FixQ(S, R) ==
  LET R2 == R \cup {d \in S : \E f \in R : d.l < f.l /\ d \in AllAdj(S, f)}
  IN IF R2 = R THEN R ELSE FixQ(S, R2)
ClosureQ(S, M) == LET R == FixQ(S, M) IN (S \ R) \cup UNION {Kids(f) : f \in R}

(* Boundary segments: unit pieces are the root-cell edges on the domain boundary *)
BdrPieces == {<<p, s>> \in RootPos \X (1..4) :
                 LET c == Cell(p[1] * U, p[2] * U, U, 0)  q == NbrSq(c, s) IN ~InDomainSq(q[1], q[2], U)}
\* a segment: [px, py] start point, [horizontal], length; as record [x0, y0, x1, y1] with (x0,y0) <= (x1,y1)
SegOf(p, s, l, k) ==
  LET x == p[1] * U  y == p[2] * U  g == U \div (2^l) IN
  CASE s = 1 -> [x0 |-> x + k * g, y0 |-> y, x1 |-> x + (k + 1) * g, y1 |-> y]
    [] s = 3 -> [x0 |-> x + k * g, y0 |-> y + U, x1 |-> x + (k + 1) * g, y1 |-> y + U]
    [] s = 4 -> [x0 |-> x, y0 |-> y + k * g, x1 |-> x, y1 |-> y + (k + 1) * g]
    [] s = 2 -> [x0 |-> x + U, y0 |-> y + k * g, x1 |-> x + U, y1 |-> y + (k + 1) * g]
AllSegments == UNION {{SegOf(b[1], b[2], l, k) : k \in 0..(2^l - 1)} : b \in BdrPieces, l \in 0..SegMaxL}

\* edges of a cell as segments (sorted end points)
EdgeSeg(c, s) ==
  CASE s = 1 -> [x0 |-> c.x, y0 |-> c.y, x1 |-> c.x + c.h, y1 |-> c.y]
    [] s = 3 -> [x0 |-> c.x, y0 |-> c.y + c.h, x1 |-> c.x + c.h, y1 |-> c.y + c.h]
    [] s = 4 -> [x0 |-> c.x, y0 |-> c.y, x1 |-> c.x, y1 |-> c.y + c.h]
    [] s = 2 -> [x0 |-> c.x + c.h, y0 |-> c.y, x1 |-> c.x + c.h, y1 |-> c.y + c.h]
SegContains(e, g) ==      \* edge e contains segment g (same line)
  \/ (e.y0 = e.y1 /\ g.y0 = g.y1 /\ e.y0 = g.y0 /\ e.x0 <= g.x0 /\ g.x1 <= e.x1)
  \/ (e.x0 = e.x1 /\ g.x0 = g.x1 /\ e.x0 = g.x0 /\ e.y0 <= g.y0 /\ g.y1 <= e.y1)
HasEdge(c, g) == \E s \in 1..4 : EdgeSeg(c, s) = g
ContainsSeg(c, g) == \E s \in 1..4 : SegContains(EdgeSeg(c, s), g)

\* refine_msh_bdr: descend from the leaf whose edge contains the segment
RECURSIVE Target(_, _, _, _)
Target(st0, cand, g, fuel) == Let(st0, LAMBDA st :
  IF ~st.ok THEN st
  ELSE IF \E c \in cand : HasEdge(c, g) THEN st                             \* return elem
  ELSE LET P == {c \in cand : ContainsSeg(c, g)} IN
       IF P = {} \/ fuel = 0 THEN [st EXCEPT !.ok = FALSE]                   \* assert parent
       ELSE LET c == CHOOSE c \in P : TRUE IN
            Target(RefQ(st, c), Kids(c), g, fuel - 1))

-----------------------------------------------------------------------------
Init == leaves = RootCells /\ err = "none" /\ last = [op |-> "init"]

Refine(c) ==
  /\ "refine" \in Ops /\ c.l < MaxLevel
  /\ \E st \in {RefQ([S |-> leaves, ok |-> TRUE], c)} :
       /\ leaves' = st.S
       /\ err' = (IF st.ok THEN err ELSE "refine")
  /\ last' = [op |-> "refine", c |-> c]

UniformRefine ==
  \* as written uniform_refine() iterates over a Python set and fails on meshes with leaves of
  \* different levels whenever the balance recursion subdivides a later element first (observed;
  \* outside the listed properties): the action is specified on level-uniform meshes only
  /\ "uniform" \in Ops /\ \A c \in leaves : c.l < MaxLevel
  /\ \A c, d \in leaves : c.l = d.l
  /\ leaves' = UNION {Kids(c) : c \in leaves}      \* every leaf once; balance never triggers a second subdivision
  /\ UNCHANGED err
  /\ last' = [op |-> "uniform"]

\* precondition of the call: some leaf still has an edge containing the segment (on a mesh whose
\* leaves along the segment are already finer, no refinement can produce a leaf with that edge and
\* the code stops at `assert parent`; TLC exhibits this when the guard is dropped)
TargetBdr(g) ==
  /\ "target" \in Ops
  /\ \E c \in leaves : ContainsSeg(c, g)
  /\ \E st \in {Target([S |-> leaves, ok |-> TRUE], leaves, g, MaxLevel + 1)} :
       /\ leaves' = st.S
       /\ err' = (IF st.ok THEN err ELSE "refine_msh_bdr")
  /\ last' = [op |-> "target", g |-> g]

\* exploration bound as a state function (a call counter hidden by a VIEW loses states under
\* parallel BFS): every subdivision adds three leaves
Expand == Cardinality(leaves) <= Cardinality(RootPos) + 3 * Budget /\ err = "none"
Next == Expand /\ (\/ \E c \in leaves : Refine(c)
                   \/ UniformRefine
                   \/ \E g \in AllSegments : TargetBdr(g))
Spec == Init /\ [][Next]_vars
View == <<leaves, err>>

-----------------------------------------------------------------------------
RECURSIVE AreaSum(_)
AreaSum(S) == IF S = {} THEN 0 ELSE LET c == CHOOSE c \in S : TRUE IN c.h * c.h + AreaSum(S \ {c})
CellOK(c) == /\ c.l \in 0..MaxLevel /\ c.h * (2^c.l) = U /\ c.x % c.h = 0 /\ c.y % c.h = 0
             /\ InDomainSq(c.x, c.y, c.h)
TilesQ(S) == /\ \A c \in S : CellOK(c)
             /\ \A a, b \in S : a # b => ~OverlapC(a, b)
             /\ AreaSum(S) = Cardinality(RootPos) * U * U
Tiles == TilesQ(leaves)
BalancedQ(S) == \A c \in S : \A d \in AllAdj(S, c) : c.l - d.l \in {-1, 0, 1}
Balanced == BalancedQ(leaves)
NoErr == err = "none"

RefineIsClosure ==
  [][(last'.op = "refine" /\ err' = "none") => leaves' = ClosureQ(leaves, {last'.c})]_vars
Refines(T1, S1) == \A a \in T1 : \E b \in S1 : InsideC(a, b.x, b.y, b.h)
OnlyRefines == [][Refines(leaves', leaves)]_vars

\* after targeting: exactly one leaf has the segment as an edge, both end points are corners of
\* leaves, and (needed by the load vector, C08) every leaf whose closure meets the segment has
\* the segment as an edge or one of its end points as a corner
Corner(c, x, y) == (x = c.x \/ x = c.x + c.h) /\ (y = c.y \/ y = c.y + c.h)
Touches(c, g) == c.x <= g.x1 /\ g.x0 <= c.x + c.h /\ c.y <= g.y1 /\ g.y0 <= c.y + c.h
TargetPost(S, g) ==
  /\ Cardinality({c \in S : HasEdge(c, g)}) = 1
  /\ \E c \in S : Corner(c, g.x0, g.y0)
  /\ \E c \in S : Corner(c, g.x1, g.y1)
  /\ \A c \in S : Touches(c, g) => (HasEdge(c, g) \/ Corner(c, g.x0, g.y0) \/ Corner(c, g.x1, g.y1))
TargetOK == [][(last'.op = "target" /\ err' = "none") => TargetPost(leaves', last'.g)]_vars
\* the targeted refinement is minimal: the leaf set is the closure of the chain of ancestors of the segment
=============================================================================
