--------------------------- MODULE TraceAssembly ---------------------------
(***************************************************************************)
(* Judge for histories executed against the real bilform_matrix /            *)
(* linform_vector with a real cache directory and real process pools.  Each   *)
(* event is one completed call (with the observed path, the projected cache    *)
(* directory afterwards and the bitwise comparison of the returned array with   *)
(* the entry-by-entry reference), a crash during the store, or a fault injected  *)
(* between calls.  The expected directory and path are the big-step summary      *)
(* BigDisk / BigPath of Assembly.tla, which TLC proves equal to the small-step    *)
(* behaviour (invariant BigStepAgrees).                                          *)
(***************************************************************************)
EXTENDS Assembly, Json, IOUtils

JTrace == JsonDeserialize(IOEnv.TRACE_FILE)
VARIABLES l, bad, tdisk
tvars == <<vars, l, bad, tdisk>>

KindOf(d) == [i \in Inputs |-> d[i].st]
ObsDisk(ev) == [i \in Inputs |-> ev.disk[i]]
Mk(st, i) == IF st = "absent" THEN Absent ELSE [st |-> st, owner |-> i]

TraceInit == Init /\ l = 1 /\ bad = {} /\ tdisk = [i \in Inputs |-> Absent]

Expected(ev, d) ==
  CASE ev.k = "reset" -> [i \in Inputs |-> Absent]
    [] ev.k = "call" -> BigDisk(d, ev.in, ev.mp)
    [] ev.k = "crash" -> [d EXCEPT ![ev.in] = [st |-> ev.kind, owner |-> ev.in]]
    [] ev.k = "truncate" -> [d EXCEPT ![ev.in] = [st |-> ev.kind, owner |-> d[ev.in].owner]]
    [] ev.k = "delete" -> [d EXCEPT ![ev.in] = Absent]

Failed(ev, d) ==
  IF ev.exc # "" THEN {"call-failed"}
  ELSE (IF ev.k = "call" /\ ~ev.equal THEN {"transparent"} ELSE {})
    \cup (IF ev.k = "call" /\ ~ev.own_file_only THEN {"no-sharing"} ELSE {})
    \cup (IF ev.k = "call" /\ ev.path # BigPath(d, ev.in, ev.mp) THEN {"d:path"} ELSE {})
    \cup (IF ObsDisk(ev) # KindOf(Expected(ev, d)) THEN {IF ev.k = "call" THEN "cache-state" ELSE "d:fault-injection"} ELSE {})
    \cup (IF ev.k = "call" /\ BigPath(d, ev.in, ev.mp) = "inline" /\ ObsDisk(ev) # KindOf(d) THEN {"inline-touched-cache"} ELSE {})

TraceStep ==
  /\ l <= Len(JTrace)
  /\ LET ev == JTrace[l] IN
       /\ bad' = bad \cup {<<l, c>> : c \in Failed(ev, tdisk)}
       \* continue from the *observed* directory so that one deviation is reported once
       /\ tdisk' = IF ev.exc = "" THEN [i \in Inputs |-> Mk(ev.disk[i], i)] ELSE tdisk
  /\ l' = l + 1
  /\ UNCHANGED vars
TraceSpec == TraceInit /\ [][TraceStep]_tvars
Report == (l = Len(JTrace) + 1) => PrintT(<<"BAD", bad>>)
TraceDone == TLCGet("stats").diameter = Len(JTrace) + 1
=============================================================================
