--------------------------- MODULE TraceParamInit ---------------------------
(* Judge for real MeshParametrized constructions and refinements (C18, mesh clauses). *)
EXTENDS ParamInit, Json, IOUtils

JTrace == JsonDeserialize(IOEnv.TRACE_FILE)
VARIABLES l, bad
tvars == <<phase, nt, xs, elems, l, bad>>

ToElem(a) == [slab |-> a[1], x0 |-> a[2], x1 |-> a[3], piece |-> a[4], lx |-> a[5]]
ElemSet(arr) == {ToElem(arr[k]) : k \in 1..Len(arr)}
NoLx(S) == {[slab |-> e.slab, x0 |-> e.x0, x1 |-> e.x1, piece |-> e.piece] : e \in S}

PieceOKSet(S) == \A e \in S : e.piece \in 1..NP /\ StartOf(e.piece) <= e.x0 /\ e.x1 <= StartOf(e.piece + 1)
MinThreeSet(S, n) == Closed => \A j \in 1..n : Cardinality({e \in S : e.slab = j}) >= 3
TouchOnceSet(S) == Closed =>
  \A e, f \in S : (e # f /\ e.slab = f.slab) =>
     ~((e.x1 = f.x0 \/ (e.x1 = L /\ f.x0 = 0)) /\ (f.x1 = e.x0 \/ (f.x1 = L /\ e.x0 = 0)))

TraceInit == phase = "cfg" /\ nt = 1 /\ xs = Breaks /\ elems = {} /\ l = 1 /\ bad = {}
TraceStep ==
  /\ l <= Len(JTrace)
  /\ LET ev == JTrace[l]
         S2 == IF ev.exc = "" THEN ElemSet(ev.post) ELSE {}
         n == ev.nt
         X == {ev.xs[i] : i \in 1..Len(ev.xs)}
         failed ==
           IF ev.exc # "" THEN {"call-failed"}
           ELSE (IF PieceOKSet(S2) THEN {} ELSE {"piece-assignment"})
             \cup (IF MinThreeSet(S2, n) THEN {} ELSE {"min-three"})
             \cup (IF TouchOnceSet(S2) THEN {} ELSE {"touch-once"})
             \cup (IF ev.k = "construct"
                   THEN (IF NoLx(S2) = NoLx(ElemsAfterConstruct(n, X)) THEN {} ELSE {"d:construct-result"})
                   ELSE {})
     IN /\ bad' = bad \cup {<<l, c>> : c \in failed}
        /\ elems' = S2 /\ nt' = n /\ xs' = X /\ phase' = "mesh"
        /\ l' = l + 1
TraceSpec == TraceInit /\ [][TraceStep]_tvars
Report == (l = Len(JTrace) + 1) => PrintT(<<"BAD", bad>>)
TraceDone == TLCGet("stats").diameter = Len(JTrace) + 1
=============================================================================
