---------------------------- MODULE TraceSchemes ----------------------------
(* Judge for derived schemes (C15): each record carries the term, the box, the monomial exponents
   and the quantised error; TLC recomputes dimension and degree from the term with the calculus of
   Schemes.tla, rejects monomials outside the promised range and collects the terms exercised. *)
EXTENDS Schemes, Json, IOUtils

JTrace == JsonDeserialize(IOEnv.TRACE_FILE)
VARIABLES l, bad, seen
tvars == <<term, l, bad, seen>>

SumSeq(s) == IF Len(s) = 1 THEN s[1] ELSE IF Len(s) = 2 THEN s[1] + s[2] ELSE s[1] + s[2] + s[3]
Failed(r) ==
  IF r.k = "mono"
  THEN (IF r.dim # Dim(r.term) \/ r.deg # Deg(r.term) THEN {"d:calculus-mislabelled"} ELSE {})
       \cup (IF SumSeq(r.mono) > Deg(r.term) THEN {"d:monomial-outside-range"} ELSE {})
       \cup (IF r.dev > 1000000 THEN {"monomial-not-exact"} ELSE {})
  ELSE IF r.k = "measure" THEN (IF r.dev > 1000000 THEN {"weights-do-not-sum-to-measure"} ELSE {})
  ELSE IF r.k = "law" THEN (IF r.dev > 1000000 THEN {r.law} ELSE {})
  ELSE {}
\* a term is covered when its measure and all monomials up to its degree were exercised
TInit == term = (CHOOSE t \in Terms : TRUE) /\ l = 1 /\ bad = {} /\ seen = {}
TStep ==
  /\ l <= Len(JTrace)
  /\ LET r == JTrace[l] IN
       /\ bad' = bad \cup {<<l, c>> : c \in Failed(r)}
       /\ seen' = IF r.k = "mono" THEN seen \cup {<<r.term, r.mono>>} ELSE IF r.k = "measure" THEN seen \cup {<<r.term, <<>>>>} ELSE seen
  /\ l' = l + 1 /\ UNCHANGED term
TSpec == TInit /\ [][TStep]_tvars

Monos(t) == LET d == Deg(t) IN
  IF d < 0 THEN {}
  ELSE IF Dim(t) = 1 THEN {<<i>> : i \in 0..d}
  ELSE IF Dim(t) = 2 THEN {<<i, j>> \in (0..d) \X (0..d) : i + j <= d /\ (NeedsSymmetric(t) => i = j \/ TRUE)}
  ELSE {<<i, j, k>> \in (0..d) \X (0..d) \X (0..d) : i + j + k <= d}
\* symmetric variants are exercised on symmetrised monomials x^i y^j + x^j y^i (i <= j)
Wanted(t) == (IF Deg(t) >= 0 THEN {<<t, <<>>>>} ELSE {}) \cup {<<t, m>> : m \in {q \in Monos(t) : NeedsSymmetric(t) => q[1] <= q[2]}}
Report == (l = Len(JTrace) + 1) =>
            PrintT(<<"BAD", bad, "MISSING", Cardinality(UNION {Wanted(t) : t \in Terms} \ seen)>>)
Done == TLCGet("stats").diameter = Len(JTrace) + 1
=============================================================================
