----------------------------- MODULE TraceRules -----------------------------
(* Judge for the rule tables (C05): one record per obligation of Rules.tla; the coverage
   requirement is computed by TLC from the extracted registry, not supplied by the harness. *)
EXTENDS Rules, Json, IOUtils, Sequences

JTrace == JsonDeserialize(IOEnv.TRACE_FILE)
VARIABLES l, bad, seen, shapes
tvars == <<done, l, bad, seen, shapes>>

Failed(r) ==
  IF r.k = "shape"
  THEN (IF r.returned THEN {} ELSE {"returns-nothing"})
       \cup (IF r.returned /\ ~r.counts THEN {"count-mismatch"} ELSE {})
       \cup (IF r.returned /\ ~r.inside THEN {"node-outside-(0,1)"} ELSE {})
       \cup (IF r.returned /\ ~r.onesign THEN {"weights-change-sign"} ELSE {})
  ELSE (IF r.dev30 > 1000000 THEN {"literal-moment-1e-30"} ELSE {})
       \cup (IF r.dev13 > 1000000 THEN {"double-moment-1e-13"} ELSE {})

TInit == done = FALSE /\ l = 1 /\ bad = {} /\ seen = {} /\ shapes = {}
TStep ==
  /\ l <= Len(JTrace)
  /\ LET r == JTrace[l] IN
       /\ bad' = bad \cup {<<l, c>> : c \in Failed(r)}
       /\ IF r.k = "shape" THEN shapes' = shapes \cup {<<r.fam, r.key>>} /\ UNCHANGED seen
          ELSE seen' = seen \cup {<<r.fam, r.key, r.part, r.deg>>} /\ UNCHANGED shapes
  /\ l' = l + 1 /\ UNCHANGED done
TSpec == TInit /\ [][TStep]_tvars
Report == (l = Len(JTrace) + 1) =>
            PrintT(<<"BAD", bad, "MISSING", {o \in Obligations : o \notin seen /\ Entry(o[1], o[2]).ret} \cup ((ShapeObligations \ shapes) \X {"shape"})>>)
Done == TLCGet("stats").diameter = Len(JTrace) + 1
=============================================================================
