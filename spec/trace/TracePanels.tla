---------------------------- MODULE TracePanels ----------------------------
(***************************************************************************)
(* Judge for quantised observations on element pairs (C01, C04, C11, C12,   *)
(* C13 use it).  Every record carries the two elements in the integer units  *)
(* of Panels.tla, the configuration class claimed by the harness, and the     *)
(* quantised observation.  The judge recomputes the class and the causality   *)
(* relation with the operators of Panels.tla (a mislabelled record is          *)
(* rejected), evaluates the acceptance predicate of the property, collects the  *)
(* classes seen and reports the required classes that were never exercised.     *)
(***************************************************************************)
EXTENDS Panels, Json, IOUtils

JTrace == JsonDeserialize(IOEnv.TRACE_FILE)
VARIABLES l, bad, seen
tvars == <<test, trial, l, bad, seen>>

ToElem(a) == [t0 |-> a[1], t1 |-> a[2], x0 |-> a[3], x1 |-> a[4]]
Has(r, f) == f \in DOMAIN r

\* on a closed curve a disjoint pair equally far both ways round is a tie: with irrational parameters rounding decides
\* which of the two (equivalent) mirrored product rules the code takes
TieFree(P) == {IF p.rule \in {LogMX, LogMY} /\ Closed /\ p.c - p.b = L - p.d + p.a THEN [p EXCEPT !.rule = "loglog_tie"] ELSE p : p \in P}

Failed(r, te, tr) ==
     (IF Has(r, "cls") /\ (r.cls[1] # SpaceRel(te, tr) \/ r.cls[2] # AllenRel(te, tr)) THEN {"d:class-mislabelled"} ELSE {})
  \cup (IF Has(r, "dev") /\ r.dev > 1000000 THEN {"tolerance"} ELSE {})
  \cup (IF Has(r, "zero") /\ Acausal(te, tr) /\ ~r.zero THEN {"acausal-nonzero"} ELSE {})
  \cup (IF Has(r, "nonneg") /\ ~Acausal(te, tr) /\ ~r.nonneg THEN {"negative"} ELSE {})
  \cup (IF Has(r, "refpos") /\ ~Acausal(te, tr) /\ r.refpos /\ ~r.pos THEN {"not-positive"} ELSE {})
  \cup (IF Has(r, "ok") /\ ~r.ok THEN {"observation-false"} ELSE {})
  \cup (IF Has(r, "bitwise") /\ ~r.bitwise THEN {"not-bitwise-equal"} ELSE {})
  \cup (IF Has(r, "g")
        THEN LET m == Moved(r.g, r.s, te, tr) IN
             (IF m[1] = ToElem(r.te2) /\ m[2] = ToElem(r.tr2) /\ IsElem(m[1]) /\ IsElem(m[2]) THEN {} ELSE {"d:moved-pair-mislabelled"})
        ELSE {})
  \cup (IF Has(r, "split")
        THEN (IF {ToElem(q) : q \in {r.te_pieces[i] : i \in 1..Len(r.te_pieces)}} = SplitPieces(te, r.split[1])
                 /\ {ToElem(q) : q \in {r.tr_pieces[i] : i \in 1..Len(r.tr_pieces)}} = SplitPieces(tr, r.split[2])
              THEN {} ELSE {"d:split-pieces-mislabelled"})
        ELSE {})
  \cup (IF Has(r, "decomp") /\ ~r.decomp_skip
        THEN (IF TieFree({[a |-> p[1], b |-> p[2], c |-> p[3], d |-> p[4], rule |-> p[5]] : p \in {r.decomp[i] : i \in 1..Len(r.decomp)}})
                  = TieFree(Decomp(te, tr)) THEN {} ELSE {"d:panel-decomposition"})
        ELSE {})

TInit == test = [t0 |-> 0, t1 |-> 1, x0 |-> 0, x1 |-> 1] /\ trial = test /\ l = 1 /\ bad = {} /\ seen = {}
TStep ==
  /\ l <= Len(JTrace)
  /\ LET r == JTrace[l] IN
       IF r.k = "header" THEN UNCHANGED <<test, trial, bad, seen>>
       ELSE LET te == ToElem(r.te)  tr == ToElem(r.tr) IN
            /\ test' = te /\ trial' = tr
            /\ bad' = bad \cup {<<l, c>> : c \in Failed(r, te, tr)}
            /\ seen' = seen \cup {<<r.chan, SpaceRel(te, tr), AllenRel(te, tr)>>}
  /\ l' = l + 1
TSpec == TInit /\ [][TStep]_tvars

Required == IF Len(JTrace) >= 1 /\ JTrace[1].k = "header"
            THEN {<<q[1], q[2], q[3]>> : q \in {JTrace[1].required[i] : i \in 1..Len(JTrace[1].required)}} ELSE {}
Report == (l = Len(JTrace) + 1) => PrintT(<<"BAD", bad, "MISSING", Required \ seen>>)
Done == TLCGet("stats").diameter = Len(JTrace) + 1
=============================================================================
