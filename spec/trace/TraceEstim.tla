----------------------------- MODULE TraceEstim -----------------------------
(* Judge for the two-level estimators (C20).  "elem" records bind the harness's child order and
   sign patterns to Estimators.tla (QuarterSeq, SignTime/SignSpace/SignBoth); "num" records carry
   quantised deviations between the real estimators and the independent evaluation of the definition. *)
EXTENDS Estimators, Json, IOUtils

JTrace == JsonDeserialize(IOEnv.TRACE_FILE)
VARIABLES l, bad, seen
tvars == <<order, err, last, l, bad, seen>>

ToGeo(a) == [t0 |-> a[1], t1 |-> a[2], x0 |-> a[3], x1 |-> a[4]]
Failed(r) ==
  IF r.k = "elem"
  THEN LET e == ToGeo(r.e)  q == QuarterSeq(e) IN
       (IF <<ToGeo(r.quarters[1]), ToGeo(r.quarters[2]), ToGeo(r.quarters[3]), ToGeo(r.quarters[4])>> = q THEN {} ELSE {"d:quarter-order"})
       \cup (IF r.signs = <<SignTime, SignSpace, SignBoth>> THEN {} ELSE {"d:sign-patterns"})
  ELSE (IF "dev" \in DOMAIN r /\ r.dev > 1000000 THEN {r.cls} ELSE {})
       \cup (IF "ok" \in DOMAIN r /\ ~r.ok THEN {r.cls} ELSE {})
TInit == order = RootSeq /\ err = "none" /\ last = [op |-> "init"] /\ l = 1 /\ bad = {} /\ seen = {}
TStep ==
  /\ l <= Len(JTrace)
  /\ LET r == JTrace[l] IN
       /\ bad' = bad \cup {<<l, c>> : c \in Failed(r)}
       /\ seen' = IF r.k = "num" THEN seen \cup {r.cls} ELSE seen
  /\ l' = l + 1 /\ UNCHANGED <<order, err, last>>
TSpec == TInit /\ [][TStep]_tvars
Wanted == {"hier-atoms", "hh2-atoms", "hier-definition", "hh2-definition", "hh2-vanishes", "nonneg", "hh2-pool", "prolongate", "hier-initial-data", "hh2-initial-data"}
Report == (l = Len(JTrace) + 1) => PrintT(<<"BAD", bad, "MISSING", Wanted \ seen>>)
Done == TLCGet("stats").diameter = Len(JTrace) + 1
=============================================================================
