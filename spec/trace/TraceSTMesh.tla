---------------------------- MODULE TraceSTMesh ----------------------------
(***************************************************************************)
(* Judge for traces recorded from the real src/mesh.py (DESIGN 4.4/4.5).   *)
(*                                                                         *)
(* The trace is a JSON array of events; every event carries the operation, *)
(* its arguments and the full projected post-state (ordered leaves), plus   *)
(* the observations C02/C10 talk about.  The trace spec never blocks: each  *)
(* step takes the logged post-state as the new state and evaluates, with    *)
(* the operators of STMesh, every clause the properties state; the failed   *)
(* clauses are accumulated in `bad` as <<event index, clause>> and printed  *)
(* by the postcondition, so one TLC run judges thousands of events and      *)
(* names every failing clause.                                             *)
(*                                                                         *)
(* Verdict clauses (property level) and diagnostic clauses (prefix "d:")    *)
(* are separated by name; the harness maps them to VIOLATION / SPEC-DRIFT.  *)
(***************************************************************************)
EXTENDS STMesh, Marking, Json, IOUtils

Trace == JsonDeserialize(IOEnv.TRACE_FILE)

VARIABLES l, bad
tvars == <<order, err, last, l, bad>>

ToLeaf(a) == [t0 |-> a[1], t1 |-> a[2], x0 |-> a[3], x1 |-> a[4], lt |-> a[5], lx |-> a[6]]
ToSeq(arr) == [k \in 1..Len(arr) |-> ToLeaf(arr[k])]

RootIdx(e) == (e.t0 \div U) * Nx + (e.x0 \div U) + 1
\* grading window with per-root integer thresholds supplied by the harness (DESIGN C19):
\* ev.p = 2*sigma, ev.ct[r], ev.cs[r]
GradeOK(e, ev) ==
  LET r == RootIdx(e) IN
  /\ ~(2 * e.lt <= ev.ct[r] + ev.p * e.lx)
  /\ ~(ev.p * e.lx - 2 * e.lt <= ev.cs[r])

\* clauses on a (post-)state: C02's tiling / descent / 1-irregularity
StateClauses(S, post) ==
     (IF \A e \in S : DyadicOK(e) THEN {} ELSE {"dyadic-descent"})
  \cup (IF Len(post) = Cardinality(S) THEN {} ELSE {"duplicate-leaves"})
  \cup (IF TilesSet(S) THEN {} ELSE {"tiling"})
  \cup (IF OneIrrSet(S) THEN {} ELSE {"one-irregular"})

\* C10: reported neighbours (indices into post) = geometric neighbours; flags
NbrClauses(ev, S, post) ==
  IF "nb" \notin DOMAIN ev THEN {}
  ELSE
     (IF \A k \in 1..Len(post) : \A s \in Sides :
           /\ {IF i \in 1..Len(post) THEN post[i] ELSE [t0 |-> -1] : i \in Rng(ev.nb[k][s])} = NbrAcross(S, post[k], s)
           /\ Len(ev.nb[k][s]) = Cardinality(Rng(ev.nb[k][s]))
         THEN {} ELSE {"nbr"})
  \cup (IF \A k \in 1..Len(post) : \A s \in Sides : Len(ev.nb[k][s]) <= 2 THEN {} ELSE {"nbr-at-most-two"})
  \cup (IF \A k \in 1..Len(post) : \A s \in Sides : ev.bd[k][s] = OnBoundary(post[k], s)
         THEN {} ELSE {"nbr-flag"})
  \cup (IF \A k \in 1..Len(post) : \A s \in Sides : (ev.bd[k][s] <=> Len(ev.nb[k][s]) = 0)
         THEN {} ELSE {"nbr-boundary-empty"})

\* bookkeeping observations measured on the real object; the property requires them all
BookClauses(ev) ==
  IF "book" \notin DOMAIN ev THEN {}
  ELSE {c \in DOMAIN ev.book : ev.book[c] = FALSE}

\* C06 marking clause.  ev.etai: integer indicators in the order of the pre-state's leaves
\* (isotropic: one per leaf; anisotropic: <<time, space>> per leaf); ev.th2 = <<num, den>>.
IdxOf(M) == {k \in 1..Len(order) : order[k] \in M}
MarkClauses(ev, Mt, Ms) ==
  IF "etai" \notin DOMAIN ev \/ ~ev.judge_marking THEN {}
  ELSE LET N == Len(order) IN
       IF Len(ev.etai) # N THEN {"d:indicator-length"}
       ELSE IF ev.kind = "dorfler_iso"
       THEN LET v == [k \in 1..N |-> ev.etai[k]] IN
            (IF Mt = Ms THEN {} ELSE {"marked-directions"})
            \cup (IF AcceptMarked(v, IdxOf(Mt), ev.th2[1], ev.th2[2]) THEN {} ELSE {"marking"})
       ELSE LET v == [k \in 1..(2 * N) |-> IF k <= N THEN ev.etai[k][1] ELSE ev.etai[k - N][2]]
                M == IdxOf(Mt) \cup {N + k : k \in IdxOf(Ms)} IN
            (IF AcceptMarked(v, M, ev.th2[1], ev.th2[2]) THEN {} ELSE {"marking"})

\* what the operation had to produce
OpClauses(ev, S, post) ==
  LET S2 == Rng(post) IN
  CASE ev.k = "reset" -> {}
    [] ev.k = "obs" -> (IF post = order THEN {} ELSE {"d:obs-changed-state"})
    [] ev.k = "bisect" ->
         LET e == ToLeaf(ev.e) IN
         IF e \notin S THEN {"d:bisect-of-non-leaf"}
         ELSE (IF S2 = Closure(S, {e}, ev.ax) THEN {} ELSE {"closure"})
              \cup (LET st == RefAx(St0, e, ev.ax) IN
                    IF st.ok /\ st.ord = post THEN {} ELSE {"d:order"})
    [] ev.k = "both" ->
         LET e == ToLeaf(ev.e) IN
         IF e \notin S THEN {"d:bisect-of-non-leaf"}
         ELSE (IF S2 = Closure(Closure(S, {e}, 0), Children(e, 0), 1) THEN {} ELSE {"closure"})
    [] ev.k = "uniform" ->
         (IF S2 = UNION {UNION {Children(c, 1) : c \in Children(e, 0)} : e \in S} THEN {} ELSE {"uniform"})
    [] ev.k = "uspace" ->
         (IF S2 = UNION {Children(e, 1) : e \in S} THEN {} ELSE {"uniform-space"})
    [] ev.k = "dorfler" ->    \* marked sets observed; result must be the declarative double closure
         LET Mt == {ToLeaf(a) : a \in Rng(ev.mt)}  Ms == {ToLeaf(a) : a \in Rng(ev.ms)} IN
         (IF Mt \subseteq S /\ Ms \subseteq S THEN {} ELSE {"d:marked-non-leaf"})
         \cup MarkClauses(ev, Mt, Ms)
         \cup (IF S2 = DorflerDecl(S, Mt, Ms) THEN {} ELSE {"dorfler-closure"})
    [] ev.k = "grade" ->
         (IF \A e \in S2 : GradeOK(e, ev) THEN {} ELSE {"grade-window"})
    [] OTHER -> {"d:unknown-event"}

\* every operation only refines, and must not fail
CommonClauses(ev, S, post) ==
     (IF ev.k = "reset" \/ Refines(Rng(post), S) THEN {} ELSE {"only-refines"})
  \cup (IF ev.exc = "" THEN {} ELSE {"call-failed"})

TraceInit == order = RootSeq /\ err = "none" /\ last = [op |-> "init"] /\ l = 1 /\ bad = {}

TraceStep ==
  /\ l <= Len(Trace)
  /\ LET ev == Trace[l]
         post == IF ev.exc = "" THEN ToSeq(ev.post) ELSE order    \* a failed call leaves no usable post-state
         S == Leaves
         S2 == Rng(post)
         big == "big" \in DOMAIN ev /\ ev.big      \* a graded mesh of tens of thousands of leaves: the window clause only
         failed == IF ev.exc # "" THEN {"call-failed"}
                   ELSE IF big THEN (IF \A e \in S2 : GradeOK(e, ev) THEN {} ELSE {"grade-window"})
                                    \cup (IF Len(post) = Cardinality(S2) THEN {} ELSE {"duplicate-leaves"})
                   ELSE CommonClauses(ev, S, post) \cup StateClauses(S2, post) \cup OpClauses(ev, S, post)
                        \cup NbrClauses(ev, S2, post) \cup BookClauses(ev)
     IN /\ order' = post
        /\ bad' = bad \cup {<<l, c>> : c \in failed}
        /\ l' = l + 1
        /\ UNCHANGED <<err, last>>

TraceSpec == TraceInit /\ [][TraceStep]_tvars

\* acceptance: the whole trace was consumed; the verdict is the printed set
Consumed == l = Len(Trace) + 1
Report == (l = Len(Trace) + 1) => PrintT(<<"BAD", bad>>)
TraceDone == TLCGet("stats").diameter = Len(Trace) + 1
=============================================================================
