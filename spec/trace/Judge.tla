------------------------------- MODULE Judge -------------------------------
(***************************************************************************)
(* Generic judge for quantised numerical observations (DESIGN 1.4).         *)
(* A trace is a JSON array of records.  The first record is a header         *)
(*   [k |-> "header", required |-> <<class names>>]                          *)
(* every other record carries                                               *)
(*   cls   configuration class claimed by the harness                        *)
(*   dev   ceil(10^6 * |value - reference| / tolerance), capped at 10^9       *)
(*   optional: zero (value == 0.0 exactly), must_zero, nonneg (value >= -tol) *)
(*             must_pos + pos (value > 0), ok (a Boolean observation)         *)
(* The judge accepts a record iff dev <= 10^6 and the flags agree, collects   *)
(* the classes seen and finally demands that every required class was seen.   *)
(***************************************************************************)
EXTENDS Integers, Sequences, FiniteSets, TLC, Json, IOUtils

JTrace == JsonDeserialize(IOEnv.TRACE_FILE)
VARIABLES l, bad, seen
jvars == <<l, bad, seen>>

Has(r, f) == f \in DOMAIN r
Failed(r) ==
     (IF Has(r, "dev") /\ r.dev > 1000000 THEN {"tolerance"} ELSE {})
  \cup (IF Has(r, "must_zero") /\ r.must_zero /\ ~r.zero THEN {"must-be-zero"} ELSE {})
  \cup (IF Has(r, "nonneg") /\ ~r.nonneg THEN {"negative"} ELSE {})
  \cup (IF Has(r, "must_pos") /\ r.must_pos /\ ~r.pos THEN {"not-positive"} ELSE {})
  \cup (IF Has(r, "ok") /\ ~r.ok THEN {"observation-false"} ELSE {})
  \cup (IF Has(r, "lam6") /\ r.lam6 <= 10000 THEN {"not-definite"} ELSE {})   \* 10^6 * lambda_min > 0.01 * 10^6

Init == l = 1 /\ bad = {} /\ seen = {}
Step ==
  /\ l <= Len(JTrace)
  /\ LET r == JTrace[l] IN
       IF r.k = "header" THEN UNCHANGED <<bad, seen>>
       ELSE /\ bad' = bad \cup {<<l, c>> : c \in Failed(r)}
            /\ seen' = seen \cup {r.cls}
  /\ l' = l + 1
Spec == Init /\ [][Step]_jvars

Required == IF Len(JTrace) >= 1 /\ JTrace[1].k = "header" THEN {JTrace[1].required[i] : i \in 1..Len(JTrace[1].required)} ELSE {}
Report == (l = Len(JTrace) + 1) => PrintT(<<"BAD", bad, "MISSING", Required \ seen>>)
Done == TLCGet("stats").diameter = Len(JTrace) + 1
=============================================================================
