----------------------------- MODULE TraceSlobo -----------------------------
(* Judge for the Slobodeckij seminorm quadratures (C14).  The coverage requirement -- every
   routine, every order the routine supports, every polynomial degree up to (N-1)/2, every law --
   is computed from Rules.tla (which orders land on tabulated keys), not supplied by the harness. *)
EXTENDS Rules, Json, IOUtils, Sequences

JTrace == JsonDeserialize(IOEnv.TRACE_FILE)
VARIABLES l, bad, seen
tvars == <<done, l, bad, seen>>

Orders14 == {n \in 1..23 : n % 2 = 1 /\ HasKey("gsqrtinv", GaussKey(n)) /\ Entry("gsqrtinv", GaussKey(n)).ret}
Orders12 == {n \in 1..21 : n % 2 = 1 /\ HasKey("gx", GaussKey(n)) /\ Entry("gx", GaussKey(n)).ret}
Laws == {"nonneg", "const-zero", "scaling", "translation"}
Wanted ==
     {q \in {<<"h14", n, "exact", d>> : n \in Orders14, d \in 1..11} : q[4] <= (q[2] - 1) \div 2}
  \cup {q \in {<<"h12", n, "exact", d>> : n \in Orders12, d \in 1..10} : q[4] <= (q[2] - 1) \div 2}
  \cup {<<r, n, law, 0>> : r \in {"h14"}, n \in Orders14, law \in Laws}
  \cup {<<r, n, law, 0>> : r \in {"h12"}, n \in Orders12, law \in Laws}
  \cup {<<"h12-curve", n, "curve-equals-flat", 0>> : n \in Orders12}
  \cup {<<"h12-pw", 21, "corner", 0>>}

Failed(r) ==
     (IF r.dev > 1000000 THEN {r.cls} ELSE {})
  \cup (IF r.cls = "exact" /\ r.deg > (r.n - 1) \div 2 THEN {"d:degree-outside-range"} ELSE {})
TInit == done = FALSE /\ l = 1 /\ bad = {} /\ seen = {}
TStep ==
  /\ l <= Len(JTrace)
  /\ LET r == JTrace[l] IN
       /\ bad' = bad \cup {<<l, c>> : c \in Failed(r)}
       /\ seen' = seen \cup {<<r.routine, r.n, r.cls, r.deg>>}
  /\ l' = l + 1 /\ UNCHANGED done
TSpec == TInit /\ [][TStep]_tvars
Report == (l = Len(JTrace) + 1) => PrintT(<<"BAD", bad, "MISSING", Wanted \ seen>>)
Done == TLCGet("stats").diameter = Len(JTrace) + 1
=============================================================================
