----------------------------- MODULE TraceLoop -----------------------------
(* Judge for runs of the real driver (C03): phase events must be a behaviour of AdaptiveLoop,
   per-leaf orthogonality records are judged at the phase "residual", and every accepted
   (problem, domain) x switch combination must have been exercised. *)
EXTENDS AdaptiveLoop, Json, IOUtils

JTrace == JsonDeserialize(IOEnv.TRACE_FILE)
\* the key operators of Sessions.tla (its variables are not used here)
Sess == INSTANCE Sessions WITH MaxRuns <- 0, KeyHasProblem <- TRUE, InlineAtStart <- TRUE, Domains <- {}, Quads <- {},
                               wd <- 0, run <- 0, phase <- "idle", mat <- 0, rhs <- 0, est <- 0, nruns <- 0, prev <- 0
VARIABLES l, bad, seen, tphase, sess,
          strict,   \* TRUE inside a run that announced its configuration (complete iterations of the driver)
          tcfg,     \* that configuration
          exp,      \* observable steps still expected in the current iteration (AdaptiveLoop!ExpectedIter)
          loops     \* <<refinement, grading>> of the complete-iteration runs seen
tvars == <<vars, l, bad, seen, tphase, sess, strict, tcfg, exp, loops>>

\* phases the recorder can observe, in protocol order
Order == <<"configure", "assemble", "rhs", "solve", "hh2", "hier", "residual">>
Pos(p) == CHOOSE i \in 1..Len(Order) : Order[i] = p
\* complete iterations: the recorded steps must be exactly the observable steps of AdaptiveLoop for this configuration
StrictPhase(r) ==
  IF r.phase = "iter" THEN (IF exp = <<>> THEN {} ELSE {"d:protocol-iteration-incomplete"})
  ELSE IF r.phase = "regrid-observed"
       THEN (IF tcfg.refinement = "uniform" /\ tcfg.grading /\ tcfg.domain \in RegridDomains THEN {} ELSE {"d:protocol-unexpected-new-mesh"})
  ELSE IF r.phase = "hier-loaded" THEN (IF exp # <<>> /\ Head(exp) \in {"hier", "residual"} THEN {} ELSE {"d:protocol-step"})
  ELSE IF exp # <<>> /\ Head(exp) = r.phase THEN {} ELSE {"d:protocol-step"}
Failed(r) ==
  IF r.k = "phase" /\ strict THEN StrictPhase(r)
  ELSE IF r.k = "phase" THEN
       (IF r.phase \in {Order[i] : i \in 1..Len(Order)} THEN {} ELSE {"d:unknown-phase"})
       \cup (IF r.phase \in {Order[i] : i \in 1..Len(Order)} /\ tphase \in {Order[i] : i \in 1..Len(Order)} /\ r.phase # "configure" /\ r.phase # "assemble"
                /\ Pos(r.phase) <= Pos(tphase) THEN {"d:phase-order"} ELSE {})
  ELSE IF r.k = "leaf" THEN
       (IF ~Accepted(r.problem, r.domain) THEN {"d:rejected-combination-ran"} ELSE {})
       \cup (IF r.dev > 1000000 THEN {"orthogonality"} ELSE {})
  ELSE IF r.k = "system" THEN (IF r.dev > 1000000 THEN {"linear-system"} ELSE {})
  ELSE IF r.k = "session" THEN
       \* Sessions.tla: V is shared by all runs on one curve and switch, the load vector only by runs of one problem
       \* (at iteration 0 the matrix is below the size at which bilform_matrix uses files at all: Assembly.tla, inline path)
       (IF r.sl_hit THEN {"d:session-matrix-file-for-small-size"} ELSE {})
       \cup (IF r.m0_hit # (r.prior = r.problem /\ HasU0(r.problem)) THEN {"d:session-vector-cache"} ELSE {})
  ELSE IF r.k = "estload" THEN
       \* Sessions.tla: an estimator array is loaded from a file iff an earlier run in this directory stored one under the same key
       LET me == [problem |-> r.problem, domain |-> r.domain, exact |-> r.exact, q |-> <<r.q0, r.q1>>]
           P(i) == [problem |-> r.priors[i].problem, domain |-> r.priors[i].domain, exact |-> r.priors[i].exact, q |-> <<r.priors[i].q0, r.priors[i].q1>>]
           I == 1..Len(r.priors) IN
       (IF r.wl2 = (\E i \in I : Sess!L2Key(P(i)) = Sess!L2Key(me)) THEN {} ELSE {"d:session-weighted-l2-file"})
       \cup (IF r.sob = (\E i \in I : Sess!SobKey(P(i)) = Sess!SobKey(me)) THEN {} ELSE {"d:session-sobolev-file"})
       \cup (IF r.hier = (\E i \in I : r.priors[i].hier_enabled /\ Sess!HierKey(P(i)) = Sess!HierKey(me)) THEN {} ELSE {"d:session-hierarchical-file"})
       \cup (IF r.m0 = (HasU0(r.problem) /\ \E i \in I : Sess!M0Key(P(i)) = Sess!M0Key(me)) THEN {} ELSE {"d:session-vector-cache"})
  ELSE IF r.k = "run" THEN (IF r.exc # "" THEN {"run-failed"} ELSE {})
                           \cup (IF strict /\ r.exc = "" /\ exp # <<>> THEN {"d:protocol-iteration-incomplete"} ELSE {})
                           \cup (IF strict /\ r.exc = "" /\ r.iterations # tcfg.iters THEN {"d:protocol-iterations"} ELSE {})
  ELSE {}
\* (the model variables are not stepped by the judge: one fixed initial state instead of AdaptiveLoop's 9216)
OneInit == cfg = (CHOOSE c \in Configs : TRUE) /\ phase = "configure" /\ k = 0 /\ have = {} /\ err = "none" /\ obs = <<>> /\ meshobj = 0
TInit == OneInit /\ l = 1 /\ bad = {} /\ seen = {} /\ tphase = "configure" /\ sess = {}
         /\ strict = FALSE /\ tcfg = [problem |-> "none"] /\ exp = <<>> /\ loops = {}
TStep ==
  /\ l <= Len(JTrace)
  /\ LET r == JTrace[l] IN
       /\ bad' = bad \cup {<<l, c>> : c \in Failed(r)}
       /\ seen' = IF r.k = "leaf" THEN seen \cup {<<r.problem, r.domain, r.exact>>} ELSE seen
       /\ sess' = IF r.k = "session" THEN sess \cup {<<r.prior, r.problem, r.domain, r.exact>>} ELSE sess
       /\ strict' = IF r.k = "cfg" THEN TRUE ELSE IF r.k = "run" THEN FALSE ELSE strict
       /\ tcfg' = IF r.k = "cfg" THEN r ELSE tcfg
       /\ loops' = IF r.k = "cfg" THEN loops \cup {<<r.refinement, r.grading>>} ELSE loops
       /\ exp' = IF r.k \in {"cfg", "run"} THEN <<>>
                ELSE IF r.k = "phase" /\ strict
                     THEN (IF r.phase = "iter" THEN ExpectedIter(tcfg)
                           ELSE IF r.phase = "hier-loaded" THEN (IF exp # <<>> /\ Head(exp) = "hier" THEN Tail(exp) ELSE exp)
                           ELSE IF exp # <<>> /\ Head(exp) = r.phase THEN Tail(exp) ELSE exp)
                ELSE exp
       /\ tphase' = IF r.k = "phase" THEN r.phase ELSE tphase
  /\ l' = l + 1 /\ UNCHANGED vars
TSpec == TInit /\ [][TStep]_tvars
Wanted == {<<c[1], c[2], x>> : c \in AcceptedCombos, x \in BOOLEAN}
\* the two problems with initial data that share a domain, run one after the other from one directory, both switches
WantedSessions == {<<a, b, "UnitSquare", x>> : <<a, b>> \in {<<"Smooth", "Singular">>, <<"Singular", "Smooth">>}, x \in BOOLEAN}
WantedLoops == {<<"uniform", FALSE>>, <<"isotropic", FALSE>>, <<"anisotropic", FALSE>>, <<"anisotropic", TRUE>>}
Report == (l = Len(JTrace) + 1) => PrintT(<<"BAD", bad, "MISSING", (Wanted \ seen) \cup (WantedSessions \ sess) \cup (WantedLoops \ loops)>>)
Done == TLCGet("stats").diameter = Len(JTrace) + 1
=============================================================================
