--------------------------- MODULE TraceQuadTree ---------------------------
(* Judge for traces recorded from the real InitialMesh; same scheme as TraceSTMesh. *)
EXTENDS QuadTree, Json, IOUtils

JTrace == JsonDeserialize(IOEnv.TRACE_FILE)
VARIABLES l, bad
tvars == <<leaves, err, last, l, bad>>

ToCell(a) == Cell(a[1], a[2], a[3], a[4])
ToSet(arr) == {ToCell(arr[k]) : k \in 1..Len(arr)}
ToSeg(a) == [x0 |-> a[1], y0 |-> a[2], x1 |-> a[3], y1 |-> a[4]]

StateClauses(S, ev) ==
     (IF \A c \in S : CellOK(c) THEN {} ELSE {"cell-shape"})
  \cup (IF Cardinality(S) = Len(ev.post) THEN {} ELSE {"duplicate-leaves"})
  \cup (IF TilesQ(S) THEN {} ELSE {"tiling"})
  \cup (IF BalancedQ(S) THEN {} ELSE {"balance"})
  \cup {c \in DOMAIN ev.book : ev.book[c] = FALSE}

\* minimal targeting result: descend from the leaf containing the segment, subdividing it (with
\* balance closure) until a leaf has the segment as an edge
RECURSIVE TargetDecl(_, _, _)
TargetDecl(S, g, fuel) ==
  IF \E c \in S : HasEdge(c, g) THEN S
  ELSE LET P == {c \in S : ContainsSeg(c, g)} IN
       IF P = {} \/ fuel = 0 THEN S
       ELSE TargetDecl(ClosureQ(S, {CHOOSE c \in P : TRUE}), g, fuel - 1)

OpClauses(ev, S, S2) ==
  CASE ev.k = "reset" -> {}
    [] ev.k = "refine" ->
         LET c == ToCell(ev.c) IN
         IF c \notin S THEN {"d:refine-of-non-leaf"}
         ELSE (IF S2 = ClosureQ(S, {c}) THEN {} ELSE {"closure"})
    [] ev.k = "uniform" -> (IF S2 = UNION {Kids(c) : c \in S} THEN {} ELSE {"uniform"})
    [] ev.k = "target" ->
         LET g == ToSeg(ev.g) IN
            (IF Cardinality({c \in S2 : HasEdge(c, g)}) = 1 THEN {} ELSE {"target-exactly-one"})
         \cup (IF (\E c \in S2 : Corner(c, g.x0, g.y0)) /\ (\E c \in S2 : Corner(c, g.x1, g.y1)) THEN {} ELSE {"target-endpoints"})
         \cup (IF ev.ret_has_edge THEN {} ELSE {"target-returned-cell"})
         \cup (IF ev.endpoints_found THEN {} ELSE {"target-endpoints-retrievable"})
         \cup (IF \A c \in S2 : Touches(c, g) => (HasEdge(c, g) \/ Corner(c, g.x0, g.y0) \/ Corner(c, g.x1, g.y1))
               THEN {} ELSE {"target-touching-cells"})
         \cup (IF S2 = TargetDecl(S, g, MaxLevel + 1) THEN {} ELSE {"d:target-not-minimal"})
    [] OTHER -> {"d:unknown-event"}

TraceInit == leaves = RootCells /\ err = "none" /\ last = [op |-> "init"] /\ l = 1 /\ bad = {}
TraceStep ==
  /\ l <= Len(JTrace)
  /\ LET ev == JTrace[l]
         S == leaves
         S2 == IF ev.exc = "" THEN ToSet(ev.post) ELSE leaves
         failed == IF ev.exc # "" THEN {"call-failed"}
                   ELSE StateClauses(S2, ev) \cup OpClauses(ev, S, S2)
                        \cup (IF ev.k = "reset" \/ Refines(S2, S) THEN {} ELSE {"only-refines"})
     IN /\ leaves' = S2
        /\ bad' = bad \cup {<<l, c>> : c \in failed}
        /\ l' = l + 1
        /\ UNCHANGED <<err, last>>
TraceSpec == TraceInit /\ [][TraceStep]_tvars
Report == (l = Len(JTrace) + 1) => PrintT(<<"BAD", bad>>)
TraceDone == TLCGet("stats").diameter = Len(JTrace) + 1
=============================================================================
