----------------------------- MODULE TraceEval -----------------------------
(***************************************************************************)
(* Judge for pointwise evaluations (C07).  A record carries the trial       *)
(* element (units of Panels.tla), the point parameter x in units of          *)
(* 1/(U*K) and the time t in units of 1/(UT*K), and the relative error in     *)
(* units of 1e-11.  TLC derives, from the integers alone: acausality, the      *)
(* position class of the point (closed element / thin layer / at least 1% of   *)
(* the element length outside, with the seam-aware distance of a closed curve)  *)
(* and therefore the tolerance the property grants; the branch of `evaluate`     *)
(* (in-element split, or log rule graded towards the nearer end point).          *)
(***************************************************************************)
EXTENDS Panels, Json, IOUtils

JTrace == JsonDeserialize(IOEnv.TRACE_FILE)
VARIABLES l, bad, seen
tvars == <<test, trial, l, bad, seen>>
K == 100000

ToElem(a) == [t0 |-> a[1], t1 |-> a[2], x0 |-> a[3], x1 |-> a[4]]
Abs(v) == IF v < 0 THEN 0 - v ELSE v
Min2(a, b) == IF a < b THEN a ELSE b
\* distances of the point to the two end points, through the seam if that is shorter
DistTo(x, e, LK) == IF Closed THEN Min2(Abs(x - e), LK - Abs(x - e)) ELSE Abs(x - e)
PosClass(r) ==
  LET e == ToElem(r.tr)  xa == e.x0 * K  xb == e.x1 * K  h == xb - xa  LK == L * K
      d == Min2(DistTo(r.x, xa, LK), DistTo(r.x, xb, LK)) IN
  IF xa <= r.x /\ r.x <= xb THEN (IF r.x = xa \/ r.x = xb THEN "end-point" ELSE "inside")
  ELSE IF Closed /\ ((r.x = 0 /\ xb = LK) \/ (r.x = LK /\ xa = 0)) THEN "end-point"      \* the same point of the curve
  ELSE IF d >= (h + 99) \div 100 THEN "far" ELSE "near"     \* 100 d >= h, without leaving 32-bit integers
TimeClass(r) ==
  LET e == ToElem(r.tr) IN
  IF r.t <= e.t0 * K THEN "acausal" ELSE IF r.t <= e.t1 * K THEN "within" ELSE "after"
\* tolerance in units of 1e-11 relative
Tol(r) == IF r.chan = "evaluate_exact" THEN 10000
          ELSE CASE PosClass(r) \in {"inside", "end-point"} -> 1000
                 [] PosClass(r) = "far" -> 50000000
                 [] PosClass(r) = "near" -> 200000000
\* branch of `evaluate`: split at the point iff strictly inside (or at x_a = 0); otherwise nearer end
Branch(r) ==
  LET e == ToElem(r.tr)  xa == e.x0 * K  xb == e.x1 * K  LK == L * K IN
  IF (xa < r.x /\ r.x < xb) \/ (r.x = xa /\ xa = 0) THEN "split"
  ELSE IF DistTo(r.x, xa, LK) <= DistTo(r.x, xb, LK) THEN "graded-to-start" ELSE "graded-to-end"

Failed(r) ==
  IF TimeClass(r) = "acausal" THEN (IF r.zero THEN {} ELSE {"acausal-nonzero"})
  ELSE (IF r.err11 > Tol(r) THEN {"tolerance-" \o PosClass(r)} ELSE {})
       \cup (IF r.cls # PosClass(r) THEN {"d:position-mislabelled"} ELSE {})

TInit == test = [t0 |-> 0, t1 |-> 1, x0 |-> 0, x1 |-> 1] /\ trial = test /\ l = 1 /\ bad = {} /\ seen = {}
TStep ==
  /\ l <= Len(JTrace)
  /\ LET r == JTrace[l] IN
       IF r.k = "header" THEN UNCHANGED <<bad, seen>>
       ELSE /\ bad' = bad \cup {<<l, c>> : c \in Failed(r)}
            /\ seen' = seen \cup {<<r.chan, PosClass(r), TimeClass(r), Branch(r)>>}
  /\ l' = l + 1 /\ UNCHANGED <<test, trial>>
TSpec == TInit /\ [][TStep]_tvars
\* every combination of channel x position class x time class x branch that can occur must be seen
WantedEval == {<<"evaluate", p, tc, b>> : p \in {"inside", "end-point", "near", "far"}, tc \in {"acausal", "within", "after"},
                                        b \in {"split", "graded-to-start", "graded-to-end"}}
Possible(q) == /\ (q[2] = "inside" => q[4] = "split")
               /\ (q[2] \in {"near", "far"} => q[4] # "split")
               /\ (q[2] = "end-point" => q[4] # "split" \/ TRUE)
Report == (l = Len(JTrace) + 1) =>
   PrintT(<<"BAD", bad, "MISSING", {q \in WantedEval : Possible(q) /\ q \notin seen}>>)
Done == TLCGet("stats").diameter = Len(JTrace) + 1
=============================================================================
