------------------------------ MODULE Sessions ------------------------------
(***************************************************************************)
(* Several runs of the adaptive driver from one working directory.  The      *)
(* driver keeps ./data (or ./data_exact with --single-layer-exact) between    *)
(* runs; SingleLayerOperator.bilform_matrix stores V under a key made of the   *)
(* curve and the two element lists, InitialOperator.linform_vector stores the  *)
(* load vector <M0 u0, 1_E> under a key made of the *problem string*, the       *)
(* curve and the element list.  At iteration 0 every run on one domain has the  *)
(* same element list, so the only thing that separates the vectors of two       *)
(* problems with different initial data is the problem string.                  *)
(*                                                                         *)
(* Galerkin orthogonality of a run needs the matrix of its own curve/switch and *)
(* the load vector of its own problem: `OwnData`.  With KeyHasProblem = FALSE     *)
(* (diagnostic configuration) the second run on the unit square loads the        *)
(* first one's vector and OwnData is violated.                                   *)
(***************************************************************************)
EXTENDS Integers, FiniteSets, Sequences, TLC

CONSTANTS MaxRuns, KeyHasProblem, Domains, Quads,
          InlineAtStart   \* TRUE: the matrix of the initial mesh is below bilform_matrix's file threshold (Assembly.tla, inline path)

Problems == {"Smooth", "Singular", "Dirichlet", "MildSingular"}
\* Quads: values of --estimator-quadrature, as <<order of the weighted L2 rule, orders of the Sobolev rules>>
Accepted(p, d) ==
  CASE p = "Smooth" -> d \in {"UnitSquare", "PiSquare"}
    [] p = "Singular" -> d \in {"UnitSquare", "LShape"}
    [] OTHER -> TRUE
HasU0(p) == p \in {"Smooth", "Singular"}
Runs == {c \in [problem : Problems, domain : Domains, exact : BOOLEAN, q : Quads] : Accepted(c.problem, c.domain)}

VARIABLES wd,       \* working directory: key -> what the file holds
          run,      \* current run's configuration (or "none")
          phase,    \* "idle" | "assemble" | "rhs" | "solve" | "residual"
          mat, rhs, \* provenance of the assembled matrix and load vector
          est,      \* provenance of the estimator arrays of this run: [hier, wl2, sob]
          nruns, prev
vars == <<wd, run, phase, mat, rhs, est, nruns, prev>>

Dir(c) == IF c.exact THEN "data_exact" ELSE "data"
SLKey(c) == <<Dir(c), "SL", c.domain>>                          \* curve + element lists (iteration 0: a function of the domain)
M0Key(c) == <<Dir(c), "M0", IF KeyHasProblem THEN c.problem ELSE "-", c.domain>>
SLData(c) == <<"V", c.domain, c.exact>>
M0Data(c) == <<"M0u0", c.problem, c.domain>>

\* the estimator arrays are stored under (problem, number of elements, quadrature orders, curve + element list);
\* the residual they are computed from is a function of problem, curve, switch (directory) and mesh
HierKey(c) == <<Dir(c), "hier", c.problem, c.domain>>
L2Key(c) == <<Dir(c), "wl2", c.problem, c.domain, c.q[1]>>
SobKey(c) == <<Dir(c), "sob", c.problem, c.domain, c.q[2]>>
HierData(c) == <<"hier", c.problem, c.domain, c.exact>>
L2Data(c) == <<"wl2", c.problem, c.domain, c.exact, c.q[1]>>
SobData(c) == <<"sob", c.problem, c.domain, c.exact, c.q[2]>>
NoEst == [hier |-> "none", wl2 |-> "none", sob |-> "none"]

Init == wd = [k \in {} |-> 0] /\ run = "none" /\ phase = "idle" /\ mat = "none" /\ rhs = "none" /\ est = NoEst /\ nruns = 0 /\ prev = "none"

Start(c) ==
  /\ phase = "idle" /\ nruns < MaxRuns
  /\ run' = c /\ phase' = "assemble" /\ nruns' = nruns + 1 /\ mat' = "none" /\ rhs' = "none" /\ est' = NoEst
  /\ prev' = run
  /\ UNCHANGED wd
Store(k, v) == [x \in DOMAIN wd \cup {k} |-> IF x = k THEN v ELSE wd[x]]
Assemble ==
  /\ phase = "assemble"
  /\ IF InlineAtStart THEN mat' = SLData(run) /\ UNCHANGED wd
     ELSE IF SLKey(run) \in DOMAIN wd THEN mat' = wd[SLKey(run)] /\ UNCHANGED wd
     ELSE mat' = SLData(run) /\ wd' = Store(SLKey(run), SLData(run))
  /\ phase' = "rhs" /\ UNCHANGED <<run, rhs, est, nruns, prev>>
LoadVector ==
  /\ phase = "rhs"
  /\ IF ~HasU0(run.problem) THEN rhs' = <<"g", run.problem, run.domain>> /\ UNCHANGED wd     \* g-linform is never cached
     ELSE IF M0Key(run) \in DOMAIN wd THEN rhs' = wd[M0Key(run)] /\ UNCHANGED wd
     ELSE rhs' = M0Data(run) /\ wd' = Store(M0Key(run), M0Data(run))
  /\ phase' = "solve" /\ UNCHANGED <<run, mat, est, nruns, prev>>
Solve == phase = "solve" /\ phase' = "hier" /\ UNCHANGED <<wd, run, mat, rhs, est, nruns, prev>>
\* hierarchical estimator (loaded whenever its file exists), residual, weighted L2, Sobolev: load the file or compute and store
LoadOrStore(next, key, data, field) ==
  /\ IF key \in DOMAIN wd THEN est' = [est EXCEPT ![field] = wd[key]] /\ UNCHANGED wd
     ELSE est' = [est EXCEPT ![field] = data] /\ wd' = Store(key, data)
  /\ phase' = next /\ UNCHANGED <<run, mat, rhs, nruns, prev>>
Hier == phase = "hier" /\ LoadOrStore("residual", HierKey(run), HierData(run), "hier")
Residual == phase = "residual" /\ phase' = "l2" /\ UNCHANGED <<wd, run, mat, rhs, est, nruns, prev>>
EstL2 == phase = "l2" /\ LoadOrStore("sobolev", L2Key(run), L2Data(run), "wl2")
EstSob == phase = "sobolev" /\ LoadOrStore("done", SobKey(run), SobData(run), "sob")
\* the driver is stopped (or goes on refining: later iterations have problem-dependent element lists)
Finish == phase \in {"residual", "done"} /\ phase' = "idle" /\ UNCHANGED <<wd, run, mat, rhs, est, nruns, prev>>
\* the user removes the directory between runs
Wipe == phase = "idle" /\ wd # [k \in {} |-> 0] /\ wd' = [k \in {} |-> 0] /\ UNCHANGED <<run, phase, mat, rhs, est, nruns, prev>>

Next == (\E c \in Runs : Start(c)) \/ Assemble \/ LoadVector \/ Solve \/ Hier \/ Residual \/ EstL2 \/ EstSob \/ Finish \/ Wipe
Spec == Init /\ [][Next]_vars

\* the density solved for belongs to the run's own operator and data, whatever ran before in this directory
OwnData ==
  phase \in {"hier", "residual"} =>
     /\ mat = SLData(run)
     /\ rhs = IF HasU0(run.problem) THEN M0Data(run) ELSE <<"g", run.problem, run.domain>>
\* estimator arrays handed to the marking step were computed for this run's problem, curve, switch and quadrature
OwnEstimates ==
  phase = "done" => /\ est.hier = HierData(run) /\ est.wl2 = L2Data(run) /\ est.sob = SobData(run)
\* the inductive core: every file holds what *any* run that would read it expects (so OwnData and OwnEstimates follow for
\* every number of runs, not only MaxRuns)
FilesServeAllReaders ==
  \A c \in Runs :
     /\ (~InlineAtStart /\ SLKey(c) \in DOMAIN wd) => wd[SLKey(c)] = SLData(c)
     /\ (HasU0(c.problem) /\ M0Key(c) \in DOMAIN wd) => wd[M0Key(c)] = M0Data(c)
     /\ HierKey(c) \in DOMAIN wd => wd[HierKey(c)] = HierData(c)
     /\ L2Key(c) \in DOMAIN wd => wd[L2Key(c)] = L2Data(c)
     /\ SobKey(c) \in DOMAIN wd => wd[SobKey(c)] = SobData(c)
\* a file is only ever read by runs for which it was written
NoForeignFile == \A k \in DOMAIN wd : k[1] \in {"data", "data_exact"}

\* pairs of consecutive runs that share a cache file or would share one without the problem string
Hazard(a, b) == a # b /\ a.domain = b.domain /\ a.exact = b.exact
HazardPairs == {<<a, b>> \in Runs \X Runs : Hazard(a, b) /\ HasU0(a.problem) /\ HasU0(b.problem)}
=============================================================================
