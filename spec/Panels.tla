------------------------------- MODULE Panels -------------------------------
(***************************************************************************)
(* Discrete skeleton of the single-layer operator (src/single_layer.py,      *)
(* src/single_layer_exact.py): causality guard, ordering and swap of         *)
(* `bilform`, the recursive panel splitting of `__integrate`, the case         *)
(* dispatch of `spacetime_integrated_kernel`, the classification of element    *)
(* pairs used by the numerical checks (C01, C04, C11, C12), and the branch      *)
(* structure of the pointwise evaluation (C07).                                *)
(*                                                                           *)
(* A curve is a sequence of pieces of integer length (in units of U = 2^MaxL    *)
(* grid points per unit length), closed or open.  An element is                 *)
(* [t0, t1, x0, x1]; its piece is the piece containing its parameter interval.   *)
(* Every state is one ordered pair (test, trial) of elements, i.e. one test case. *)
(***************************************************************************)
EXTENDS Integers, FiniteSets, Sequences, TLC

CONSTANTS Pieces,      \* sequence of piece lengths in unit lengths, e.g. <<1, 1, 1, 1>>
          Closed,
          MaxL,        \* dyadic levels 0..MaxL below one unit length
          TLevels,     \* dyadic levels 0..TLevels below the time horizon
          TH,          \* time horizon in unit intervals
          MinPerSlab   \* only elements of length <= curve length / MinPerSlab (3: at least three per slab)

VARIABLES test, trial
vars == <<test, trial>>

U == 2^MaxL
NP == Len(Pieces)
RECURSIVE Start(_)
Start(i) == IF i = 1 THEN 0 ELSE Start(i - 1) + U * Pieces[i - 1]
L == Start(NP + 1)
PieceOfIv(x0, x1) == CHOOSE i \in 1..NP : Start(i) <= x0 /\ x1 <= Start(i + 1)
UT == 2^TLevels

\* dyadic sub-intervals of each unit of each piece (levels 0..MaxL), and whole pieces longer than a unit
UnitIvs(i, u) == UNION {{<<Start(i) + u * U + k * (U \div 2^l), Start(i) + u * U + (k + 1) * (U \div 2^l)>> :
                            k \in 0..(2^l - 1)} : l \in 0..MaxL}
SpaceIvs == UNION {UNION {UnitIvs(i, u) : u \in 0..(Pieces[i] - 1)} : i \in 1..NP}
            \cup {<<Start(i), Start(i + 1)>> : i \in 1..NP}
GoodIv(iv) == (iv[2] - iv[1]) * MinPerSlab <= L \/ ~Closed
TimeIvs == UNION {{<<u * UT + k * (UT \div 2^l), u * UT + (k + 1) * (UT \div 2^l)>> : k \in 0..(2^l - 1)} :
                    u \in 0..(TH - 1), l \in 0..TLevels}
Elems == {[t0 |-> t[1], t1 |-> t[2], x0 |-> x[1], x1 |-> x[2]] : t \in TimeIvs, x \in {iv \in SpaceIvs : GoodIv(iv)}}

Init == test \in Elems /\ trial \in Elems
Next == UNCHANGED vars
Spec == Init /\ [][Next]_vars

-----------------------------------------------------------------------------
(* Causality *)
Acausal(te, tr) == te.t1 <= tr.t0            \* bilform / MP_SL_matrix_col / residual skip
AcausalPt(t, tr) == t <= tr.t0               \* evaluate / evaluate_exact / potential

\* Allen's thirteen relations between the test time interval [a, b] and the trial one [c, d]
AllenRel(te, tr) ==
  LET a == te.t0  b == te.t1  c == tr.t0  d == tr.t1 IN
  CASE b < c -> "before" [] b = c -> "meets"
    [] a > d -> "after" [] a = d -> "met-by"
    [] a = c /\ b = d -> "equals"
    [] a = c /\ b < d -> "starts" [] a = c /\ b > d -> "started-by"
    [] b = d /\ a > c -> "finishes" [] b = d /\ a < c -> "finished-by"
    [] a > c /\ b < d -> "during" [] a < c /\ b > d -> "contains"
    [] a < c /\ b < d -> "overlaps" [] a > c /\ b > d -> "overlapped-by"
\* which of the four terms F(b-d), F(b-c), F(a-c), F(a-d) of the double time integral are switched on
TimeTerms(te, tr) ==
  (IF te.t1 > tr.t1 THEN {"bd"} ELSE {}) \cup (IF te.t1 > tr.t0 THEN {"bc"} ELSE {})
  \cup (IF te.t0 > tr.t0 THEN {"ac"} ELSE {}) \cup (IF te.t0 > tr.t1 THEN {"ad"} ELSE {})
CausalHasTerm == \A te, tr \in {test, trial} : (~Acausal(te, tr)) <=> ("bc" \in TimeTerms(te, tr))

-----------------------------------------------------------------------------
(* Relative position of the two parameter intervals *)
PieceOf(e) == PieceOfIv(e.x0, e.x1)
SeamTouch(e, f) == Closed /\ ((e.x0 = 0 /\ f.x1 = L) \/ (f.x0 = 0 /\ e.x1 = L))
SpaceRel(e, f) ==
  LET a == e.x0  b == e.x1  c == f.x0  d == f.x1  same == PieceOf(e) = PieceOf(f) IN
  CASE a = c /\ b = d -> "identical"
    [] (a = c \/ b = d) /\ same -> "nested-aligned"
    [] ((a < c /\ d < b) \/ (c < a /\ b < d)) -> "nested-interior"
    [] (b = c \/ d = a) /\ same -> "touch"
    [] (b = c \/ d = a) /\ ~same -> "corner"
    [] SeamTouch(e, f) -> (IF NP = 1 THEN "seam-smooth" ELSE "seam-corner")
    [] OTHER -> LET gap == IF b < c THEN c - b ELSE a - d
                    wrap == L - gap - (b - a) - (d - c) IN
                (IF same THEN "disjoint-same" ELSE "disjoint-other")
                \o (IF Closed /\ wrap < gap THEN "-nearer-through-seam" ELSE "")
SizeRatio(e, f) == LET h == e.x1 - e.x0  k == f.x1 - f.x0 IN
                   IF h = k THEN "1" ELSE IF h = 2 * k \/ k = 2 * h THEN "2" ELSE IF h = 4 * k \/ k = 4 * h THEN "4" ELSE "big"
PairClass(te, tr) == <<SpaceRel(te, tr), AllenRel(te, tr)>>

-----------------------------------------------------------------------------
(* The recursive panel splitting of SingleLayerOperator.__integrate.  Rectangles are
   <<a, b, c, d>> = [a, b] x [c, d] with (a, b) <= (c, d) lexicographically.  Result: a set of
   terminal panels [r, rule], or {"error"} entries for the code's assertions. *)
RuleSame == "duffy"          \* duff_log_log: graded for the whole diagonal x = y of a square
RuleMX == "duffy_mx"         \* .mirror_x(): graded for the corner (b, c)
RuleMY == "duffy_my"         \* .mirror_y(): graded for the corner (a, d)
LogMX == "loglog_mx"         \* product log rule, nearest approach at (b, c)
LogMY == "loglog_my"         \* product log rule, nearest approach at (a, d)

LexLeq(a, b, c, d) == a < c \/ (a = c /\ b <= d)
Panel(a, b, c, d, rule) == [a |-> a, b |-> b, c |-> c, d |-> d, rule |-> rule]
Err(line) == [a |-> 0, b |-> 0, c |-> 0, d |-> 0, rule |-> "assert:" \o line]

RECURSIVE Integ(_, _, _, _, _)
Integ(a, b, c, d, fuel) ==
  LET hx == b - a  hy == d - c IN
  IF fuel = 0 THEN {Err("nontermination")}
  ELSE IF ~(a < b /\ c < d) THEN {Err("140")}
  ELSE IF ~LexLeq(a, b, c, d) THEN {Err("141")}
  ELSE IF a = c /\ b = d THEN {Panel(a, b, c, d, RuleSame)}
  ELSE IF b = c THEN
       (IF hx = hy THEN {Panel(a, b, c, d, RuleMX)}
        ELSE IF hx > hy THEN {Panel(b - hy, b, c, d, RuleMX)} \cup Integ(a, b - hy, c, d, fuel - 1)
        ELSE {Panel(a, b, c, c + hx, RuleMX)} \cup Integ(a, b, c + hx, d, fuel - 1))
  ELSE IF a = 0 /\ d = L /\ Closed THEN
       (IF ~(b < c) THEN {Err("163")}
        ELSE IF hx = hy THEN {Panel(a, b, c, d, RuleMY)}
        ELSE IF hx > hy THEN {Panel(a, a + hy, c, d, RuleMY)} \cup Integ(a + hy, b, c, d, fuel - 1)
        ELSE Integ(a, b, c, d - hx, fuel - 1) \cup {Panel(a, b, d - hx, d, RuleMY)})
  ELSE IF b < c THEN
       (IF c - b < L - d + a \/ ~Closed THEN {Panel(a, b, c, d, LogMX)} ELSE {Panel(a, b, c, d, LogMY)})
  ELSE IF d < b THEN Integ(a, d, c, d, fuel - 1) \cup {Panel(d, b, c, d, RuleMY)}
  ELSE IF a = c THEN (IF ~(b < d) THEN {Err("194")} ELSE Integ(a, b, c, b, fuel - 1) \cup Integ(a, b, b, d, fuel - 1))
  ELSE IF ~(a < c) THEN {Err("200")}
  ELSE Integ(a, c, c, d, fuel - 1) \cup Integ(c, b, c, d, fuel - 1)

\* bilform: ordering and swap
Ordered(te, tr) == IF LexLeq(te.x0, te.x1, tr.x0, tr.x1) THEN <<te.x0, te.x1, tr.x0, tr.x1>> ELSE <<tr.x0, tr.x1, te.x0, te.x1>>
Decomp(te, tr) == LET r == Ordered(te, tr) IN Integ(r[1], r[2], r[3], r[4], 4 * MaxL + 8)

NoAssert(P) == \A p \in P : p.rule \in {RuleSame, RuleMX, RuleMY, LogMX, LogMY}
Area(P) == LET RECURSIVE S(_)
               S(Q) == IF Q = {} THEN 0 ELSE LET p == CHOOSE p \in Q : TRUE IN (p.b - p.a) * (p.d - p.c) + S(Q \ {p})
           IN S(P)
DisjointPanels(P) == \A p, q \in P : p # q => ~(p.a < q.b /\ q.a < p.b /\ p.c < q.d /\ q.c < p.d)
TilesRect(P, r) == /\ \A p \in P : r[1] <= p.a /\ p.b <= r[2] /\ r[3] <= p.c /\ p.d <= r[4] /\ p.a < p.b /\ p.c < p.d
                   /\ DisjointPanels(P) /\ Area(P) = (r[2] - r[1]) * (r[4] - r[3])

\* singular locus of a panel: points with gamma(x) = gamma(y): the diagonal segment, and (0, L) on a closed curve
DiagLo(p) == IF p.a > p.c THEN p.a ELSE p.c
DiagHi(p) == IF p.b < p.d THEN p.b ELSE p.d
HasDiag(p) == DiagLo(p) <= DiagHi(p)
HasSeam(p) == Closed /\ p.a = 0 /\ p.d = L
\* what each rule is graded for
Handled(p) ==
  CASE p.rule = RuleSame -> p.a = p.c /\ p.b = p.d /\ ~HasSeam(p)                                  \* whole diagonal of a square
    [] p.rule = RuleMX -> (HasDiag(p) => (DiagLo(p) = p.b /\ DiagHi(p) = p.b /\ p.b = p.c)) /\ ~HasSeam(p)   \* only the corner (b, c)
    [] p.rule = RuleMY -> (HasDiag(p) => (DiagLo(p) = p.a /\ DiagHi(p) = p.a /\ p.a = p.d))           \* only the corner (a, d) (or the seam point there)
                          /\ (HasSeam(p) \/ HasDiag(p))
    [] p.rule = LogMX -> ~HasDiag(p) /\ ~HasSeam(p) /\ (~Closed \/ p.c - p.b <= L - p.d + p.a)          \* regular, nearest approach (b, c)
    [] p.rule = LogMY -> ~HasDiag(p) /\ ~HasSeam(p) /\ Closed /\ L - p.d + p.a <= p.c - p.b              \* regular, nearest approach (a, d)
    [] OTHER -> FALSE
\* (touching panels are cut into squares before the Duffy rule is applied, except in the nested
\* branch `d < b`, where the corner rule is applied to a rectangle; both are valid)

IntegrateOK ==
  LET P == Decomp(test, trial)  r == Ordered(test, trial) IN
  /\ NoAssert(P)
  /\ TilesRect(P, r)
  /\ \A p \in P : Handled(p)

-----------------------------------------------------------------------------
(* spacetime_integrated_kernel: disjoint / same / touch / two split cases, exhaustive and tiling *)
RECURSIVE Exact(_, _, _, _, _)
Exact(xa, xb, ya, yb, fuel) ==
  IF fuel = 0 THEN {Err("nontermination")}
  ELSE IF ~LexLeq(xa, xb, ya, yb)     \* the kernel is symmetric: evaluate with the roles exchanged
       THEN {Panel(p.c, p.d, p.a, p.b, p.rule) : p \in Exact(ya, yb, xa, xb, fuel - 1)}
  ELSE IF xb < ya THEN {Panel(xa, xb, ya, yb, "fint4")}
  ELSE IF xa = ya /\ xb = yb THEN {Panel(xa, xb, ya, yb, "fint1")}
  ELSE IF xb = ya THEN {Panel(xa, xb, ya, yb, "fint2")}
  ELSE IF xa < ya THEN Exact(xa, ya, ya, yb, fuel - 1) \cup Exact(ya, xb, ya, yb, fuel - 1)
  ELSE IF ~(xa = ya /\ xb < yb) THEN {Err("exact:assert")}
  ELSE Exact(xa, xb, ya, xb, fuel - 1) \cup Exact(xa, xb, xb, yb, fuel - 1)
ExactOK ==
  PieceOf(test) = PieceOf(trial) =>
    LET P == Exact(test.x0, test.x1, trial.x0, trial.x1, 4 * MaxL + 8)
        r == <<test.x0, test.x1, trial.x0, trial.x1>> IN
    /\ \A p \in P : p.rule \in {"fint1", "fint2", "fint4"}
    /\ TilesRect(P, r)
    /\ \A p \in P : /\ (p.rule = "fint1" => (p.a = p.c /\ p.b = p.d))
                    /\ (p.rule = "fint2" => (p.b = p.c \/ p.d = p.a))
                    /\ (p.rule = "fint4" => (p.b < p.c \/ p.d < p.a))

-----------------------------------------------------------------------------
(* Group actions used by C12: exchange of the space intervals, common time shift, rotation of a
   closed curve by s grid units (a symmetry when s is a multiple of the side length of a square /
   any s on the circle), reflection x -> L - x.  A moved interval that would straddle the seam is
   not an element (the harness only moves pairs whose images are elements). *)
Exchange(te, tr) == <<[te EXCEPT !.x0 = tr.x0, !.x1 = tr.x1], [tr EXCEPT !.x0 = te.x0, !.x1 = te.x1]>>
ShiftT(e, s) == [e EXCEPT !.t0 = e.t0 + s, !.t1 = e.t1 + s]
RotX(e, s) == LET a == (e.x0 + s) % L IN [e EXCEPT !.x0 = a, !.x1 = a + (e.x1 - e.x0)]
ReflX(e) == [e EXCEPT !.x0 = L - e.x1, !.x1 = L - e.x0]
Moved(g, s, te, tr) ==
  CASE g = "exchange" -> Exchange(te, tr)
    [] g = "shift" -> <<ShiftT(te, s), ShiftT(tr, s)>>
    [] g = "rot" -> <<RotX(te, s), RotX(tr, s)>>
    [] g = "refl" -> <<ReflX(te), ReflX(tr)>>
IsElem(e) == e.x1 <= L /\ e.x0 >= 0 /\ e.x0 < e.x1 /\ (\E i \in 1..NP : Start(i) <= e.x0 /\ e.x1 <= Start(i + 1))
OrbitClass(g, s, te, tr) ==
  LET m == Moved(g, s, te, tr) IN
  IF g \in {"exchange", "shift"} THEN g
  ELSE g \o (IF SpaceRel(m[1], m[2]) # SpaceRel(te, tr) THEN ":changes-class" ELSE ":keeps-class")

(* Split kinds used by C11 preserve the dyadic structure *)
Halves(e, ax) ==
  IF ax = 0 THEN LET m == (e.t0 + e.t1) \div 2 IN {[e EXCEPT !.t1 = m], [e EXCEPT !.t0 = m]}
  ELSE LET m == (e.x0 + e.x1) \div 2 IN {[e EXCEPT !.x1 = m], [e EXCEPT !.x0 = m]}
SplitPieces(e, kind) ==
  CASE kind = "none" -> {e} [] kind = "time" -> Halves(e, 0) [] kind = "space" -> Halves(e, 1)
    [] kind = "quarter" -> UNION {Halves(h, 1) : h \in Halves(e, 0)}
SplitTiles ==
  (test.t1 - test.t0 >= 2 /\ test.x1 - test.x0 >= 2) =>
  \A kind \in {"none", "time", "space", "quarter"} :
     LET P == SplitPieces(test, kind) IN
     /\ \A p \in P : test.t0 <= p.t0 /\ p.t1 <= test.t1 /\ test.x0 <= p.x0 /\ p.x1 <= test.x1 /\ p.t0 < p.t1 /\ p.x0 < p.x1
     /\ \A p, q \in P : p # q => ~(p.t0 < q.t1 /\ q.t0 < p.t1 /\ p.x0 < q.x1 /\ q.x0 < p.x1)
     /\ Cardinality(P) = (CASE kind = "none" -> 1 [] kind = "quarter" -> 4 [] OTHER -> 2)
=============================================================================
