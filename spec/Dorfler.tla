------------------------------ MODULE Dorfler ------------------------------
(***************************************************************************)
(* Model of the marking loop itself, exhaustive over small indicator        *)
(* vectors: the sets reachable by the sequential loop under *any* descending *)
(* order (ties broken arbitrarily) are exactly the declaratively valid sets, *)
(* every such set is a shortest set reaching the bulk, and one always exists.*)
(* Each initial state is also a test case replayed into the real mesh.       *)
(***************************************************************************)
EXTENDS Marking, TLC, FiniteSetsExt

CONSTANTS K,        \* number of contributions (N leaves isotropic, 2N anisotropic)
          MaxEta,   \* indicator values 0..MaxEta
          Thetas    \* set of <<num, den>> for theta^2

VARIABLES eta, th
vars == <<eta, th>>

Idx == 1..K
Init == eta \in [Idx -> 0..MaxEta] /\ th \in Thetas
Next == UNCHANGED vars
Spec == Init /\ [][Next]_vars

Perms == {p \in [Idx -> Idx] : \A i, j \in Idx : i # j => p[i] # p[j]}
Desc(p) == \A i, j \in Idx : i < j => eta[p[i]] >= eta[p[j]]
RECURSIVE Pre(_, _)
Pre(p, m) == IF m = 0 THEN 0 ELSE eta[p[m]] + Pre(p, m - 1)
\* the loop: mark p[1], p[2], ... and stop as soon as the marked sum reaches the bulk
LoopLen(p) == CHOOSE m \in Idx : /\ Pre(p, m) * th[2] >= th[1] * Total(eta)
                                /\ \A m2 \in 1..(m - 1) : Pre(p, m2) * th[2] < th[1] * Total(eta)
LoopMarked(p) == {p[i] : i \in 1..LoopLen(p)}
Procedural == {LoopMarked(p) : p \in {q \in Perms : Desc(q)}}
Declarative == {M \in SUBSET Idx : ValidMarked(eta, M, th[1], th[2])}

LoopEqualsDeclarative == Total(eta) > 0 => Procedural = Declarative
Exists == Total(eta) > 0 => Declarative # {}
Shortest == \A M \in Declarative : \A M2 \in SUBSET Idx :
               Reaches(eta, M2, th[1], th[2]) => Cardinality(M2) >= Cardinality(M)
=============================================================================
