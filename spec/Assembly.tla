------------------------------ MODULE Assembly ------------------------------
(***************************************************************************)
(* Execution paths of SingleLayerOperator.bilform_matrix (and, with         *)
(* HasInline = FALSE, of InitialOperator.linform_vector): inline path for     *)
(* small sizes, cache lookup, serial loop, process pool with ordered result   *)
(* collection, cache store; plus the environment: files truncated or deleted  *)
(* between calls and a crash in the middle of the store.                      *)
(*                                                                         *)
(* Inputs are abstract (model values); the value an entry *should* have is     *)
(* the uninterpreted pair <<input, column>>.  `Transparent` says that every     *)
(* returned matrix consists of its own input's columns, in order, whatever the  *)
(* path, the worker schedule and the history of the cache directory.           *)
(***************************************************************************)
EXTENDS Integers, FiniteSets, Sequences, TLC

CONSTANTS Inputs,      \* set of inputs (curve, test list, trial list)
          SmallInputs, \* subset with N*M < 100 (inline path)
          NCols,       \* number of columns (tasks of the pool); chunk size 1
          Workers,     \* set of worker counts to try
          PersistentPool, \* FALSE: a pool is forked inside every call (the code); TRUE: one pool is kept between calls (diagnostic)
          HasInline,   \* FALSE for linform_vector
          MaxCalls,
          MaxFaults

Kinds == {"empty", "header", "half", "short1", "garbage"}     \* byte-length classes of a damaged file
Absent == [st |-> "absent", owner |-> "none"]

VARIABLES disk,        \* Inputs -> file state (the key is injective in the input: one file per input)
          pc,          \* "idle" | "tryload" | "serial" | "pool" | "save" | "saving"
          cur,         \* the running call
          cols,        \* pool: column index -> value, as collected by the parent (Seq)
          pending,     \* pool: tasks taken by workers and not yet finished: worker -> task or 0
          finished,    \* pool: finished task results (task -> value)
          nextTask,    \* pool: next task index to hand out
          res,         \* last returned result
          diskAtCall,  \* history: disk when the call started
          ncalls, nfaults,
          poolin,      \* the input the living pool's workers inherited at fork time (element lists reach the workers only
                       \* through module globals copied by fork), "none" when no pool is alive
          last         \* last observable event (for replay)

vars == <<disk, pc, cur, cols, pending, finished, nextTask, res, diskAtCall, ncalls, nfaults, poolin, last>>

Correct(in) == [j \in 1..NCols |-> <<in, j>>]
NoRes == [in |-> "none"]

Init ==
  /\ disk = [i \in Inputs |-> Absent]
  /\ pc = "idle" /\ cur = [in |-> "none"]
  /\ cols = <<>> /\ pending = [w \in 1..0 |-> 0] /\ finished = [j \in 1..0 |-> 0] /\ nextTask = 1
  /\ res = NoRes /\ diskAtCall = disk /\ ncalls = 0 /\ nfaults = 0 /\ poolin = "none"
  /\ last = [ev |-> "init"]

PoolIdle == UNCHANGED <<cols, pending, finished, nextTask>>

Call(in, mp, w) ==
  /\ pc = "idle" /\ ncalls < MaxCalls
  /\ cur' = [in |-> in, mp |-> mp, w |-> w]
  /\ diskAtCall' = disk
  /\ ncalls' = ncalls + 1
  /\ IF HasInline /\ in \in SmallInputs
     THEN \* the small-size path builds the matrix inline and touches no file
          /\ res' = [in |-> in, val |-> Correct(in), path |-> "inline"]
          /\ pc' = "idle"
          /\ last' = [ev |-> "return", in |-> in, mp |-> mp, w |-> w, path |-> "inline"]
     ELSE /\ pc' = "tryload" /\ res' = NoRes
          /\ last' = [ev |-> "call", in |-> in, mp |-> mp, w |-> w]
  /\ UNCHANGED <<disk, nfaults>> /\ PoolIdle
  /\ UNCHANGED poolin

\* np.load inside a bare try/except: only a complete file written for this key is a hit
TryLoad ==
  /\ pc = "tryload"
  /\ IF disk[cur.in].st = "valid"
     THEN /\ res' = [in |-> cur.in, val |-> Correct(disk[cur.in].owner), path |-> "hit"]
          /\ pc' = "idle"
          /\ last' = [ev |-> "return", in |-> cur.in, mp |-> cur.mp, w |-> cur.w, path |-> "hit"]
          /\ PoolIdle
     ELSE /\ res' = NoRes /\ last' = [ev |-> "miss"]
          /\ IF cur.mp
             THEN /\ pc' = "pool" /\ cols' = <<>> /\ nextTask' = 1
                  /\ pending' = [w \in 1..cur.w |-> 0] /\ finished' = [j \in 1..0 |-> 0]
             ELSE /\ pc' = "serial" /\ PoolIdle
  \* the workers see the globals of the moment they were forked
  /\ poolin' = IF disk[cur.in].st # "valid" /\ cur.mp /\ ~(PersistentPool /\ poolin # "none") THEN cur.in ELSE poolin
  /\ UNCHANGED <<disk, cur, diskAtCall, ncalls, nfaults>>

Serial ==
  /\ pc = "serial"
  /\ cols' = Correct(cur.in)
  /\ pc' = "save"
  /\ last' = [ev |-> "computed"]
  /\ UNCHANGED <<disk, cur, pending, finished, nextTask, res, diskAtCall, ncalls, nfaults>>
  /\ UNCHANGED poolin

\* pool: workers take the next task, finish in any order; the parent collects in task order (imap)
WorkerTake(w) ==
  /\ pc = "pool" /\ w \in DOMAIN pending /\ pending[w] = 0 /\ nextTask <= NCols
  /\ pending' = [pending EXCEPT ![w] = nextTask]
  /\ nextTask' = nextTask + 1
  /\ last' = [ev |-> "take"]
  /\ UNCHANGED <<disk, pc, cur, cols, finished, res, diskAtCall, ncalls, nfaults>>
  /\ UNCHANGED poolin
WorkerDone(w) ==
  /\ pc = "pool" /\ w \in DOMAIN pending /\ pending[w] # 0
  /\ finished' = [j \in (DOMAIN finished) \cup {pending[w]} |->
                    IF j = pending[w] THEN <<poolin, j>> ELSE finished[j]]
  /\ pending' = [pending EXCEPT ![w] = 0]
  /\ last' = [ev |-> "done"]
  /\ UNCHANGED <<disk, pc, cur, cols, nextTask, res, diskAtCall, ncalls, nfaults>>
  /\ UNCHANGED poolin
ParentCollect ==
  /\ pc = "pool" /\ Len(cols) < NCols /\ (Len(cols) + 1) \in DOMAIN finished
  /\ cols' = Append(cols, finished[Len(cols) + 1])          \* mat[:, j] = col, j in task order
  /\ last' = [ev |-> "collect"]
  /\ UNCHANGED <<disk, pc, cur, pending, finished, nextTask, res, diskAtCall, ncalls, nfaults>>
  /\ UNCHANGED poolin
PoolFinish ==
  /\ pc = "pool" /\ Len(cols) = NCols
  /\ pc' = "save"
  /\ poolin' = IF PersistentPool THEN poolin ELSE "none"        \* the per-call pool is gone with the call
  /\ last' = [ev |-> "computed"]
  /\ UNCHANGED <<disk, cur, cols, pending, finished, nextTask, res, diskAtCall, ncalls, nfaults>>

\* np.save: the file passes through a partial state; a crash there leaves a damaged file and no result
SaveBegin ==
  /\ pc = "save"
  /\ disk' = [disk EXCEPT ![cur.in] = [st |-> "half", owner |-> cur.in]]
  /\ pc' = "saving"
  /\ last' = [ev |-> "savebegin"]
  /\ UNCHANGED <<cur, cols, pending, finished, nextTask, res, diskAtCall, ncalls, nfaults>>
  /\ UNCHANGED poolin
SaveEnd ==
  /\ pc = "saving"
  /\ disk' = [disk EXCEPT ![cur.in] = [st |-> "valid", owner |-> cur.in]]
  /\ res' = [in |-> cur.in, val |-> cols, path |-> IF cur.mp THEN "pool" ELSE "serial"]
  /\ pc' = "idle"
  /\ last' = [ev |-> "return", in |-> cur.in, mp |-> cur.mp, w |-> cur.w, path |-> IF cur.mp THEN "pool" ELSE "serial"]
  /\ UNCHANGED <<cur, cols, pending, finished, nextTask, diskAtCall, ncalls, nfaults>>
  /\ UNCHANGED poolin
Crash(kind) ==
  /\ pc = "saving" /\ nfaults < MaxFaults
  /\ disk' = [disk EXCEPT ![cur.in] = [st |-> kind, owner |-> cur.in]]
  /\ res' = NoRes /\ pc' = "idle" /\ nfaults' = nfaults + 1
  /\ last' = [ev |-> "crash", in |-> cur.in, kind |-> kind, mp |-> cur.mp, w |-> cur.w]
  /\ UNCHANGED <<cur, cols, pending, finished, nextTask, diskAtCall, ncalls>>
  /\ UNCHANGED poolin

\* environment between calls
Truncate(i, kind) ==
  /\ pc = "idle" /\ nfaults < MaxFaults /\ disk[i].st = "valid"
  /\ disk' = [disk EXCEPT ![i] = [st |-> kind, owner |-> disk[i].owner]]
  /\ nfaults' = nfaults + 1
  /\ last' = [ev |-> "truncate", in |-> i, kind |-> kind]
  /\ UNCHANGED <<pc, cur, cols, pending, finished, nextTask, res, diskAtCall, ncalls>>
  /\ UNCHANGED poolin
Delete(i) ==
  /\ pc = "idle" /\ nfaults < MaxFaults /\ disk[i].st # "absent"
  /\ disk' = [disk EXCEPT ![i] = Absent]
  /\ nfaults' = nfaults + 1
  /\ last' = [ev |-> "delete", in |-> i]
  /\ UNCHANGED <<pc, cur, cols, pending, finished, nextTask, res, diskAtCall, ncalls>>
  /\ UNCHANGED poolin

SomeWorkerTakes == \E w \in DOMAIN pending : WorkerTake(w)
SomeWorkerDone == \E w \in DOMAIN pending : WorkerDone(w)
Next ==
  \/ \E in \in Inputs, mp \in BOOLEAN, w \in Workers : Call(in, mp, w)
  \/ TryLoad \/ Serial \/ PoolFinish \/ ParentCollect \/ SaveBegin \/ SaveEnd
  \/ SomeWorkerTakes \/ SomeWorkerDone
  \/ \E k \in Kinds : Crash(k)
  \/ \E i \in Inputs, k \in Kinds : Truncate(i, k)
  \/ \E i \in Inputs : Delete(i)

Spec == Init /\ [][Next]_vars
FairSpec == Spec /\ WF_vars(TryLoad \/ Serial \/ PoolFinish \/ ParentCollect \/ SaveBegin \/ SaveEnd)
                 /\ \A w \in 1..3 : WF_vars(WorkerTake(w) \/ WorkerDone(w))

-----------------------------------------------------------------------------
(* Properties *)
\* every returned matrix is entry for entry the matrix of its own input
Transparent == res # NoRes => res.val = Correct(res.in)
\* a file is only ever written for its own key: different inputs never share a cache entry
NoSharing == \A i \in Inputs : disk[i].owner \in {"none", i}
\* the small-size path never touches the cache
InlineNoFile == (last.ev = "return" /\ res.path = "inline") => disk = diskAtCall

(* Big-step summary of a completed call, used by the trace judge: path taken and cache
   directory afterwards as a function of the directory before. *)
BigPath(d, in, mp) ==
  IF HasInline /\ in \in SmallInputs THEN "inline"
  ELSE IF d[in].st = "valid" THEN "hit" ELSE IF mp THEN "pool" ELSE "serial"
BigDisk(d, in, mp) ==
  IF BigPath(d, in, mp) \in {"inline", "hit"} THEN d
  ELSE [d EXCEPT ![in] = [st |-> "valid", owner |-> in]]
BigStepAgrees ==
  last.ev = "return" =>
     /\ res.path = BigPath(diskAtCall, res.in, cur.mp)
     /\ disk = BigDisk(diskAtCall, res.in, cur.mp)
\* every started call eventually returns or crashes (liveness, under fairness of the internal steps)
CallsTerminate == [](pc # "idle" => <>(pc = "idle"))
=============================================================================
