------------------------------ MODULE Marking ------------------------------
(***************************************************************************)
(* Doerfler (bulk) marking as in Mesh.dorfler_refine_isotropic/anisotropic: *)
(* contributions are visited in some descending order and marked until the  *)
(* marked sum reaches theta^2 times the total.  `v` is a function from a    *)
(* finite index set to naturals, theta^2 = num/den.                         *)
(***************************************************************************)
EXTENDS Integers, FiniteSets, Sequences

RECURSIVE SumOver(_, _)
SumOver(v, I) == IF I = {} THEN 0 ELSE LET i == CHOOSE i \in I : TRUE IN v[i] + SumOver(v, I \ {i})
Total(v) == SumOver(v, DOMAIN v)
MinOf(v, I) == CHOOSE m \in {v[i] : i \in I} : \A i \in I : m <= v[i]

Reaches(v, M, num, den) == SumOver(v, M) * den >= num * Total(v)

(* Declarative characterisation of the sets the loop can mark:
   top-heavy (nothing unmarked is larger than something marked), reaches the bulk,
   and no longer reaches it without its smallest member.                       *)
ValidMarked(v, M, num, den) ==
  /\ M # {} /\ M \subseteq DOMAIN v
  /\ \A i \in M : \A j \in (DOMAIN v) \ M : v[i] >= v[j]
  /\ Reaches(v, M, num, den)
  /\ (SumOver(v, M) - MinOf(v, M)) * den < num * Total(v)

(* For an all-zero vector the bulk criterion is met by the empty set while the loop marks one
   element before testing; both outcomes are accepted (DESIGN C06).              *)
AcceptMarked(v, M, num, den) ==
  IF Total(v) = 0 THEN Cardinality(M) <= 1 ELSE ValidMarked(v, M, num, den)
=============================================================================
