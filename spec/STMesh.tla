------------------------------- MODULE STMesh -------------------------------
(***************************************************************************)
(* The space-time boundary mesh of rvanvenetie/stbem (src/mesh.py).        *)
(*                                                                         *)
(* Geometry is integer: root (j, i) of the Nt x Nx tensor-product initial   *)
(* mesh occupies [j*U, (j+1)*U] x [i*U, (i+1)*U] with U = 2^MaxL; a leaf is  *)
(* the record [t0, t1, x0, x1, lt, lx] (end points and the two refinement    *)
(* levels).  The only state of the mesh that the public API exposes is the   *)
(* ordered collection of leaves (`Mesh.leaf_elements`, an OrderedDict: pop   *)
(* the parent, append the two children), so the specification's state is     *)
(* the sequence `order`; `Leaves` is its range.                             *)
(*                                                                         *)
(* Each public mutating call of `Mesh` is one action.  The conformity        *)
(* closure is specified twice: `RefAx` follows the control flow of           *)
(* `Mesh.refine_axis` (edge by edge, neighbour by neighbour, recursive,      *)
(* including the reachable `assert not elem.children`), `Closure` is the      *)
(* declarative least fixed point.  `ClosureAgrees` says they coincide.       *)
(***************************************************************************)
EXTENDS Integers, FiniteSets, FiniteSetsExt, Sequences, SequencesExt, TLC

CONSTANTS Nt,        \* number of root time slabs
          Nx,        \* number of root space intervals
          Glue,      \* TRUE: x = 0 and x = L are identified (closed curve)
          MaxL,      \* maximal level per axis (U = 2^MaxL)
          Budget,    \* bound on the number of primitive bisections (CONSTRAINT only)
          Ops,       \* set of enabled operation names
          SortSpace, \* TRUE: uniform_refine_space processes leaves by ascending space level
          GradeSkip, \* TRUE: refine_grading skips a space-marked leaf that the time phase already bisected
          P,         \* grading exponent numerator: sigma = P/2
          CTn, CSn   \* grading thresholds, passed as absolute values (cfg files have no negative numbers)

VARIABLES order,     \* sequence of leaves, in the order of Mesh.leaf_elements
          err,       \* "none", or the assertion of the code that would have fired
          last       \* last operation with its arguments (history variable for replay)

vars == <<order, err, last>>

U  == 2^MaxL
L  == Nx * U
T  == Nt * U
CT == 0 - CTn
CS == 0 - CSn

Rng(s)  == {s[k] : k \in DOMAIN s}
SubsetsUpTo(S, k) == UNION {kSubset(i, S) : i \in 0..(IF k < Cardinality(S) THEN k ELSE Cardinality(S))}
Leaves    == Rng(order)
Lvl(e, ax) == IF ax = 0 THEN e.lt ELSE e.lx
Ht(e) == e.t1 - e.t0
Hx(e) == e.x1 - e.x0

Roots == {[t0 |-> j*U, t1 |-> (j+1)*U, x0 |-> i*U, x1 |-> (i+1)*U, lt |-> 0, lx |-> 0] :
            j \in 0..(Nt-1), i \in 0..(Nx-1)}
\* the code creates the roots row by row (time slab by time slab)
RootSeq == [k \in 1..(Nt*Nx) |->
              LET j == (k-1) \div Nx  i == (k-1) % Nx IN
              [t0 |-> j*U, t1 |-> (j+1)*U, x0 |-> i*U, x1 |-> (i+1)*U, lt |-> 0, lx |-> 0]]

-----------------------------------------------------------------------------
(* Geometry *)
OverT(e, f) == e.t0 < f.t1 /\ f.t0 < e.t1
OverX(e, f) == e.x0 < f.x1 /\ f.x0 < e.x1

\* sides are numbered like Element.edges: 1 = (v0,v1) initial-time side, 2 = (v1,v2) right,
\* 3 = (v2,v3) final-time side, 4 = (v3,v0) left
Sides == 1..4
\* geometric neighbour rule (the definition C10 refers to): leaves sharing a piece of
\* positive length of the given side; on a glued mesh x = 0 and x = L are identified
NbrAcross(S, e, side) ==
  CASE side = 1 -> {f \in S : OverX(e, f) /\ f.t1 = e.t0}
    [] side = 3 -> {f \in S : OverX(e, f) /\ f.t0 = e.t1}
    [] side = 2 -> {f \in S : OverT(e, f) /\ (f.x0 = e.x1 \/ (Glue /\ e.x1 = L /\ f.x0 = 0))}
    [] side = 4 -> {f \in S : OverT(e, f) /\ (f.x1 = e.x0 \/ (Glue /\ e.x0 = 0 /\ f.x1 = L))}
AllNbrs(S, e) == UNION {NbrAcross(S, e, s) : s \in Sides}
OnBoundary(e, side) ==
  CASE side = 1 -> e.t0 = 0
    [] side = 3 -> e.t1 = T
    [] side = 2 -> e.x1 = L /\ ~Glue
    [] side = 4 -> e.x0 = 0 /\ ~Glue

\* order in which Edge.neighbour_elements() lists the (at most two) neighbours: the
\* children of the neighbouring half edge, which runs against the direction of ours
NbrList(S, e, side) ==
  LET N == NbrAcross(S, e, side) IN
  CASE side = 1 -> SetToSortSeq(N, LAMBDA a, b : a.x0 > b.x0)
    [] side = 2 -> SetToSortSeq(N, LAMBDA a, b : a.t0 > b.t0)
    [] side = 3 -> SetToSortSeq(N, LAMBDA a, b : a.x0 < b.x0)
    [] side = 4 -> SetToSortSeq(N, LAMBDA a, b : a.t0 < b.t0)

ChildSeq(e, ax) ==
  IF ax = 0 THEN LET m == (e.t0 + e.t1) \div 2
                 IN <<[e EXCEPT !.lt = e.lt + 1, !.t1 = m], [e EXCEPT !.lt = e.lt + 1, !.t0 = m]>>
            ELSE LET m == (e.x0 + e.x1) \div 2
                 IN <<[e EXCEPT !.lx = e.lx + 1, !.x1 = m], [e EXCEPT !.lx = e.lx + 1, !.x0 = m]>>
Children(e, ax) == Rng(ChildSeq(e, ax))

-----------------------------------------------------------------------------
(* Declarative closure: the least 1-irregular refinement containing the bisections M *)
RECURSIVE Fix(_, _, _)
Fix(S, R, ax) ==
  LET R2 == R \cup {g \in S : \E f \in R : Lvl(g, ax) < Lvl(f, ax) /\ g \in AllNbrs(S, f)}
  IN IF R2 = R THEN R ELSE Fix(S, R2, ax)
Closure(S, M, ax) ==
  LET R == Fix(S, M, ax) IN (S \ R) \cup UNION {Children(f, ax) : f \in R}

-----------------------------------------------------------------------------
(* Code-shaped closure: Mesh.refine_axis.  A recursion state is [ord, ok].   *)
RemoveElt(s, e) == SelectSeq(s, LAMBDA x : x # e)

\* TLC passes operator arguments and LET definitions by name; a recursion that threads a state
\* through would re-evaluate it at every use (exponential).  Let(v, Op) evaluates v once and
\* applies Op to the value (variables bound by a set constructor hold values).
Let(v, Op(_)) == CHOOSE r \in {Op(x) : x \in {v}} : TRUE

RECURSIVE RefAx(_, _, _), EdgeLoop(_, _, _, _), NbrLoop(_, _, _, _)
RefAx(st0, e, ax) == Let(st0, LAMBDA st :
  IF ~st.ok THEN st
  ELSE IF e \notin Rng(st.ord) THEN [st EXCEPT !.ok = FALSE]     \* assert not elem.children (mesh.py:261)
  ELSE Let(EdgeLoop(st, e, ax, 1), LAMBDA st1 :
       IF ~st1.ok THEN st1
       ELSE IF e \notin Rng(st1.ord) THEN [st1 EXCEPT !.ok = FALSE]
       ELSE [st1 EXCEPT !.ord = RemoveElt(st1.ord, e) \o ChildSeq(e, ax)]))
EdgeLoop(st0, e, ax, k) == Let(st0, LAMBDA st :
  IF k > 4 \/ ~st.ok THEN st
  ELSE EdgeLoop(NbrLoop(st, e, ax, NbrList(Rng(st.ord), e, k)), e, ax, k + 1))
NbrLoop(st0, e, ax, list) == Let(st0, LAMBDA st :
  IF list = <<>> \/ ~st.ok THEN st
  ELSE LET f == Head(list) IN
       NbrLoop(IF Lvl(f, ax) < Lvl(e, ax) THEN RefAx(st, f, ax) ELSE st, e, ax, Tail(list)))

St0 == [ord |-> order, ok |-> TRUE]

\* Only states within the primitive-bisection budget are expanded (every public call adds at
\* least one leaf, so this bounds the exploration); all their successors are generated and
\* checked.  An unbounded specification is obtained with a huge Budget.
Expand == Cardinality(Leaves) <= Nt * Nx + Budget

\* process a list of elements sequentially (the `for elem in ...: self.refine_axis(elem, ax)`
\* loops); `strict` models an `assert not elem.children` in front of the call; without it the
\* call itself fails on a non-leaf
RECURSIVE RefList(_, _, _)
RefList(st0, list, ax) == Let(st0, LAMBDA st :
  IF list = <<>> \/ ~st.ok THEN st ELSE RefList(RefAx(st, Head(list), ax), Tail(list), ax))

\* Python's stable sort by level
\* (SortSeq of the standard module is not guaranteed stable; build a stable one explicitly)
RECURSIVE ByLevel(_, _, _)
ByLevel(s, ax, l) ==
  IF l > MaxL + 1 THEN <<>> ELSE SelectSeq(s, LAMBDA e : Lvl(e, ax) = l) \o ByLevel(s, ax, l + 1)
Stable(s, ax) == ByLevel(s, ax, 0)

-----------------------------------------------------------------------------
(* Actions: one per public mutating call *)
Init == order = RootSeq /\ err = "none" /\ last = [op |-> "init"]

Finish(st0, opname, rec) ==
  \E st \in {st0} :
     /\ order' = st.ord
     /\ err' = (IF st.ok THEN err ELSE opname)
     /\ last' = rec

\* refine_time(e) / refine_space(e)
Bisect(e, ax) ==
  /\ "bisect" \in Ops /\ err = "none"
  /\ Lvl(e, ax) < MaxL
  /\ Finish(RefAx(St0, e, ax), "refine_axis", [op |-> "bisect", e |-> e, ax |-> ax])

\* refine(e): time, then space on both time children
BisectBoth(e) ==
  /\ "both" \in Ops /\ err = "none"
  /\ e.lt < MaxL /\ e.lx < MaxL
  /\ Finish(RefList(RefAx(St0, e, 0), ChildSeq(e, 0), 1), "refine", [op |-> "both", e |-> e])

AllBelow(ax) == \A e \in Leaves : Lvl(e, ax) < MaxL

\* uniform_refine(): all leaves in time by ascending time level, then all leaves in space
UniformRefine ==
  /\ "uniform" \in Ops /\ err = "none"
  /\ AllBelow(0) /\ AllBelow(1)
  /\ Finish(Let(RefList(St0, Stable(order, 0), 0), LAMBDA st1 : RefList(st1, Stable(st1.ord, 1), 1)),
            "uniform_refine", [op |-> "uniform"])

\* uniform_refine_space(): as written the leaves are processed in insertion order
UniformRefineSpace ==
  /\ "uspace" \in Ops /\ err = "none"
  /\ AllBelow(1)
  /\ LET todo == IF SortSpace THEN Stable(order, 1) ELSE order
     IN Finish(RefList(St0, todo, 1), "uniform_refine_space", [op |-> "uspace"])

\* Doerfler refinement for given marked sets (the marking itself is Dorfler.tla):
\* time phase in ascending time level, space phase in ascending space level on the
\* time children where an element was also bisected in time.
SubSeqOf(s, M) == SelectSeq(s, LAMBDA e : e \in M)
RECURSIVE KidsOrSelf(_, _)
KidsOrSelf(S, list) ==
  IF list = <<>> THEN <<>>
  ELSE (IF Head(list) \in S THEN <<Head(list)>> ELSE ChildSeq(Head(list), 0)) \o KidsOrSelf(S, Tail(list))
\* declarative result
DorflerDecl(S, Mt, Ms) ==
  LET S1 == Closure(S, Mt, 0)
      Ms1 == UNION {IF e \in S1 THEN {e} ELSE Children(e, 0) : e \in Ms}
  IN Closure(S1, Ms1, 1)

DorflerAniso(Mt, Ms) ==
  /\ "dorfler" \in Ops /\ err = "none"
  /\ Mt \cup Ms # {}
  /\ \A e \in Mt : e.lt < MaxL
  /\ \A e \in Ms : e.lx < MaxL
  /\ \E st2 \in {Let(RefList(St0, Stable(SubSeqOf(order, Mt), 0), 0), LAMBDA st1 :
                     RefList(st1, Stable(KidsOrSelf(Rng(st1.ord), SubSeqOf(order, Ms)), 1), 1))},
        decl \in {DorflerDecl(Leaves, Mt, Ms)} :
        /\ order' = st2.ord
        /\ err' = (IF ~st2.ok THEN "dorfler_refine_anisotropic"
                   ELSE IF Rng(st2.ord) # decl THEN "dorfler:not-declarative" ELSE err)
        /\ last' = [op |-> "dorfler_aniso", mt |-> Mt, ms |-> Ms]

\* isotropic: marked elements in time (ascending time level), then all time children of the
\* marked elements in space (ascending space level)
RECURSIVE KidsOf(_)
KidsOf(list) == IF list = <<>> THEN <<>> ELSE ChildSeq(Head(list), 0) \o KidsOf(Tail(list))
DorflerIso(M) ==
  /\ "dorfler" \in Ops /\ err = "none"
  /\ M # {}
  /\ \A e \in M : e.lt < MaxL /\ e.lx < MaxL
  \* equally large indicators are visited in an order that depends on argsort's internals:
  \* any order of the marked elements, then Python's stable sort by level
  /\ \E mseq \in SetToSeqs(M) :
     \E st2 \in {RefList(RefList(St0, Stable(mseq, 0), 0), Stable(KidsOf(Stable(mseq, 0)), 1), 1)},
        decl \in {DorflerDecl(Leaves, M, M)} :
        /\ order' = st2.ord
        /\ err' = (IF ~st2.ok THEN "dorfler_refine_isotropic"
                   ELSE IF Rng(st2.ord) # decl THEN "dorfler:not-declarative" ELSE err)
        /\ last' = [op |-> "dorfler_iso", m |-> M]

\* "independent of the processing order of equally ranked elements": all outcomes of processing
\* a set in *any* order compatible with ascending level (set-valued; only for tiny configurations)
RECURSIVE ProcAny(_, _, _)
ProcAny(st0, Todo, ax) == Let(st0, LAMBDA st :
  IF Todo = {} \/ ~st.ok THEN {st}
  ELSE LET cand == {e \in Todo : \A f \in Todo : Lvl(e, ax) <= Lvl(f, ax)}
       IN UNION {ProcAny(RefAx(st, e, ax), Todo \ {e}, ax) : e \in cand})
DorflerAnyOrder ==
  Expand =>
  \A Mt \in SubsetsUpTo(Leaves, 3) : \A Ms \in SubsetsUpTo(Leaves, 3 - Cardinality(Mt)) :
     ((\A e \in Mt : e.lt < MaxL) /\ (\A e \in Ms : e.lx < MaxL)) =>
        \A r1 \in ProcAny(St0, Mt, 0) :
           /\ r1.ok
           /\ \A ms \in {UNION {IF e \in Rng(r1.ord) THEN {e} ELSE Children(e, 0) : e \in Ms}},
                 decl \in {DorflerDecl(Leaves, Mt, Ms)} :
              \A r2 \in ProcAny(r1, ms, 1) : r2.ok /\ Rng(r2.ord) = decl

\* refine_grading(sigma = P/2, K = 4): integer form of the two marking tests
\*   h_t/K >= h_x^sigma   <=>  2*lt <= CT + P*lx      (mark for time)
\*   h_x^sigma >= K*h_t   <=>  P*lx - 2*lt <= CS      (mark for space), only if not marked for time
MarkT(e) == 2 * e.lt <= CT + P * e.lx
MarkS(e) == ~MarkT(e) /\ P * e.lx - 2 * e.lt <= CS
InWindow(e) == ~MarkT(e) /\ ~MarkS(e)

RECURSIVE GradeSpace(_, _)
GradeSpace(st0, list) == Let(st0, LAMBDA st :     \* the space loop with its `assert not elem.children` (mesh.py:440)
  IF list = <<>> \/ ~st.ok THEN st
  ELSE IF Head(list) \notin Rng(st.ord)
       THEN (IF GradeSkip THEN GradeSpace(st, Tail(list)) ELSE [st EXCEPT !.ok = FALSE])
       ELSE GradeSpace(RefAx(st, Head(list), 1), Tail(list)))

GradeSweepSt(st0) == Let(st0, LAMBDA st :
  GradeSpace(RefList(st, Stable(SelectSeq(st.ord, MarkT), 0), 0), Stable(SelectSeq(st.ord, MarkS), 1)))
NeedsGrade(S) == \E e \in S : ~InWindow(e)
GradeRoom(S) == \A e \in S : (MarkT(e) => e.lt < MaxL) /\ (MarkS(e) => e.lx < MaxL)
RECURSIVE GradeLoop(_, _)
GradeLoop(st0, fuel) == Let(st0, LAMBDA st :      \* the while loop; fuel only bounds the model's recursion
  IF ~st.ok \/ ~NeedsGrade(Rng(st.ord)) THEN [st |-> st, done |-> TRUE]
  ELSE IF fuel = 0 \/ ~GradeRoom(Rng(st.ord)) THEN [st |-> st, done |-> FALSE]
  ELSE GradeLoop(GradeSweepSt(st), fuel - 1))

Grade ==
  /\ "grade" \in Ops /\ err = "none"
  /\ \E r \in {GradeLoop(St0, 4 * MaxL + 4)} :
     /\ r.done           \* only taken where the graded mesh fits below MaxL
     /\ order' = r.st.ord
     /\ err' = (IF r.st.ok THEN err ELSE "refine_grading")
     /\ last' = [op |-> "grade"]

Step ==
  \/ \E e \in Leaves, ax \in {0, 1} : Bisect(e, ax)
  \/ \E e \in Leaves : BisectBoth(e)
  \/ UniformRefine
  \/ UniformRefineSpace
  \/ Grade
  \/ /\ "dorfler" \in Ops
     /\ \/ \E Mt \in SubsetsUpTo(Leaves, 3) : \E Ms \in SubsetsUpTo(Leaves, 3 - Cardinality(Mt)) :
              DorflerAniso(Mt, Ms)
        \/ \E M \in SubsetsUpTo(Leaves, 2) : DorflerIso(M)
Next == Expand /\ Step

Spec == Init /\ [][Next]_vars

-----------------------------------------------------------------------------
(* State predicates *)
Bound == Cardinality(Leaves) <= Nt * Nx + Budget      \* CONSTRAINT: primitive-bisection budget
View  == <<Leaves, err>>                               \* hides leaf order and history

Pow2(n) == 2^n
DyadicOK(e) ==
  /\ e.lt \in 0..MaxL /\ e.lx \in 0..MaxL
  /\ Ht(e) * Pow2(e.lt) = U /\ Hx(e) * Pow2(e.lx) = U
  /\ e.t0 % Ht(e) = 0 /\ e.x0 % Hx(e) = 0
  /\ 0 <= e.t0 /\ e.t1 <= T /\ 0 <= e.x0 /\ e.x1 <= L
DyadicDescent == \A e \in Leaves : DyadicOK(e)

RECURSIVE SumArea(_)
SumArea(S) == IF S = {} THEN 0 ELSE LET e == CHOOSE e \in S : TRUE IN Ht(e) * Hx(e) + SumArea(S \ {e})
TilesSet(S) ==
  /\ \A e, f \in S : e # f => ~(OverT(e, f) /\ OverX(e, f))
  /\ SumArea(S) = T * L
Tiles == TilesSet(Leaves)
NoDuplicates == Len(order) = Cardinality(Leaves)

OneIrrSet(S) ==
  \A e \in S : \A f \in AllNbrs(S, e) :
     /\ e.lt - f.lt \in {-1, 0, 1}
     /\ e.lx - f.lx \in {-1, 0, 1}
OneIrregular == OneIrrSet(Leaves)

AtMostTwoNbrs == \A e \in Leaves, s \in Sides : Cardinality(NbrAcross(Leaves, e, s)) <= 2
Opp(s) == CASE s = 1 -> 3 [] s = 2 -> 4 [] s = 3 -> 1 [] s = 4 -> 2
NbrSymmetric == \A e \in Leaves, s \in Sides : \A f \in NbrAcross(Leaves, e, s) :
                   e \in NbrAcross(Leaves, f, Opp(s))
BoundaryNoNbr == \A e \in Leaves, s \in Sides :
                   (OnBoundary(e, s) <=> NbrAcross(Leaves, e, s) = {})

NoErr == err = "none"

\* the code-shaped recursion computes the least 1-irregular refinement, for every leaf and axis
ClosureAgrees ==
  \A e \in Leaves, ax \in {0, 1} :
     Lvl(e, ax) < MaxL =>
        \E st \in {RefAx(St0, e, ax)} : st.ok /\ Rng(st.ord) = Closure(Leaves, {e}, ax)

\* refinement order on meshes
Inside(a, b) == b.t0 <= a.t0 /\ a.t1 <= b.t1 /\ b.x0 <= a.x0 /\ a.x1 <= b.x1
Refines(T1, S1) == \A a \in T1 : \E b \in S1 : Inside(a, b)
OnlyRefines == [][Refines(Rng(order'), Leaves)]_vars
\* every successful public call strictly refines (the adaptive loop makes progress)
StrictProgress == [][err' = "none" => Len(order') > Len(order)]_vars

\* the result of a single bisection is the declarative closure (action property)
BisectIsClosure ==
  [][(last'.op = "bisect" /\ err' = "none") =>
        Rng(order') = Closure(Leaves, {last'.e}, last'.ax)]_vars
BothIsClosure ==
  [][(last'.op = "both" /\ err' = "none") =>
        Rng(order') = Closure(Closure(Leaves, {last'.e}, 0), Children(last'.e, 0), 1)]_vars
UniformIsUniform ==
  [][(last'.op = "uniform" /\ err' = "none") =>
        Rng(order') = UNION {UNION {Children(c, 1) : c \in Children(e, 0)} : e \in Leaves}]_vars
USpaceIsUniform ==
  [][(last'.op = "uspace" /\ err' = "none") =>
        Rng(order') = UNION {Children(e, 1) : e \in Leaves}]_vars
GradeInWindow ==
  [][(last'.op = "grade" /\ err' = "none") => \A e \in Rng(order') : InWindow(e)]_vars

(* Minimality on the smallest configurations.  FreeRef enumerates all (not necessarily 1-irregular)
   refinements by up to k free bisections, FreeRefAx those that bisect along one axis only.
   TLC shows that the *literal* reading "every 1-irregular refinement containing the bisection refines
   the closure" is false on anisotropic meshes (bisecting a coarser neighbour first in the other axis
   gives an incomparable 1-irregular refinement with more leaves); what holds -- and what C02 means by
   "smallest" -- is: (MinimalAx) among the refinements by bisections along the requested axis the closure
   is the least one, and (MinimalCard) no 1-irregular refinement containing the bisection has fewer leaves. *)
RECURSIVE FreeRef(_, _)
FreeRef(SS, k) ==
  IF k = 0 THEN SS
  ELSE LET step == UNION {{(S \ {e}) \cup Children(e, ax) : e \in S, ax \in {0, 1}} : S \in SS}
           good == {S2 \in step : \A a \in S2 : DyadicOK(a)}
       IN FreeRef(SS \cup {S2 \in good : TilesSet(S2)}, k - 1)
RECURSIVE FreeRefAx(_, _, _)
FreeRefAx(SS, k, ax) ==
  IF k = 0 THEN SS
  ELSE LET step == UNION {{(S \ {e}) \cup Children(e, ax) : e \in S} : S \in SS}
           good == {S2 \in step : \A a \in S2 : DyadicOK(a)}
       IN FreeRefAx(SS \cup good, k - 1, ax)
MinimalK == 3
MinimalLiteral == Expand =>       \* expected to be violated (see above)
  \A e \in Leaves, ax \in {0, 1} :
     Lvl(e, ax) < MaxL =>
       LET C == Closure(Leaves, {e}, ax) IN
       \A T1 \in FreeRef({(Leaves \ {e}) \cup Children(e, ax)}, MinimalK) : OneIrrSet(T1) => Refines(T1, C)
MinimalAx == Expand =>
  \A e \in Leaves, ax \in {0, 1} :
     Lvl(e, ax) < MaxL =>
       LET C == Closure(Leaves, {e}, ax) IN
       \A T1 \in FreeRefAx({(Leaves \ {e}) \cup Children(e, ax)}, MinimalK, ax) : OneIrrSet(T1) => Refines(T1, C)
MinimalCard == Expand =>
  \A e \in Leaves, ax \in {0, 1} :
     Lvl(e, ax) < MaxL =>
       LET C == Closure(Leaves, {e}, ax) IN
       \A T1 \in FreeRef({(Leaves \ {e}) \cup Children(e, ax)}, MinimalK) : OneIrrSet(T1) => Cardinality(T1) >= Cardinality(C)
=============================================================================
