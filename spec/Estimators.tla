----------------------------- MODULE Estimators -----------------------------
(***************************************************************************)
(* Patch structure of the Sobolev estimator (src/error_estimator.py) and     *)
(* child order / sign patterns / prolongation of the two-level estimators      *)
(* (src/h_h2_error_estimator.py, src/hierarchical_error_estimator.py), on top    *)
(* of the mesh states of STMesh.tla.                                             *)
(*                                                                             *)
(* Space indicator of e: for e itself and each neighbour f across its two       *)
(* x = const sides: H^{1/2} seminorm on the union of the two parameter intervals  *)
(* (joined through the side they share -- through the seam if that is where they   *)
(* touch), integrated over the common time interval.  Time indicator: for e and    *)
(* each neighbour across its two t = const sides: H^{1/4} seminorm on the union of  *)
(* the time intervals, integrated over the common parameter interval.              *)
(***************************************************************************)
EXTENDS STMesh

Max2(a, b) == IF a > b THEN a ELSE b
Min2(a, b) == IF a < b THEN a ELSE b

SpaceNbrs(S, e) == NbrAcross(S, e, 2) \cup NbrAcross(S, e, 4)
TimeNbrs(S, e) == NbrAcross(S, e, 1) \cup NbrAcross(S, e, 3)

\* a space patch: common time interval, left and right parameter interval (right = "none" for e alone),
\* and whether the two are joined through the seam
SpacePatch(e, f) ==
  IF f = e THEN [t0 |-> e.t0, t1 |-> e.t1, l0 |-> e.x0, l1 |-> e.x1, r0 |-> -1, r1 |-> -1, seam |-> FALSE]
  ELSE LET seamEF == Glue /\ e.x1 = L /\ f.x0 = 0 /\ ~(e.x0 = f.x1)        \* e last, f first
           seamFE == Glue /\ f.x1 = L /\ e.x0 = 0 /\ ~(f.x0 = e.x1)
           left == IF seamFE THEN f ELSE IF seamEF THEN e ELSE IF e.x0 < f.x0 THEN e ELSE f
           right == IF left = e THEN f ELSE e IN
       [t0 |-> Max2(e.t0, f.t0), t1 |-> Min2(e.t1, f.t1), l0 |-> left.x0, l1 |-> left.x1, r0 |-> right.x0, r1 |-> right.x1,
        seam |-> seamEF \/ seamFE]
SpacePatches(S, e) == {SpacePatch(e, f) : f \in {e} \cup SpaceNbrs(S, e)}
TimePatch(e, f) ==
  [x0 |-> Max2(e.x0, f.x0), x1 |-> Min2(e.x1, f.x1), t0 |-> Min2(e.t0, f.t0), t1 |-> Max2(e.t1, f.t1)]
TimePatches(S, e) == {TimePatch(e, f) : f \in {e} \cup TimeNbrs(S, e)}

\* well-formedness of every patch of every leaf
PatchesWellFormed ==
  \A e \in Leaves :
     /\ \A p \in SpacePatches(Leaves, e) :
           /\ p.t0 < p.t1
           /\ (p.r0 # -1 => (IF p.seam THEN p.l1 = L /\ p.r0 = 0 ELSE p.l1 = p.r0))     \* contiguous union
     /\ \A p \in TimePatches(Leaves, e) : p.x0 < p.x1 /\ p.t0 < p.t1
     /\ Cardinality(SpaceNbrs(Leaves, e)) <= 4 /\ Cardinality(TimeNbrs(Leaves, e)) <= 4

(* The neighbour-symmetry shortcut of estimate_sobolev: every unordered pair {e, f} is evaluated
   once, at the element with the smaller index, and added to both.  With symbolic contributions
   (sets of unordered pairs) this equals the direct per-element sum for every reachable mesh. *)
Idx(e) == CHOOSE k \in 1..Len(order) : order[k] = e
Pair(e, f) == {e, f}
Direct(e, Nb(_, _)) == {Pair(e, f) : f \in {e} \cup Nb(Leaves, e)}
Shortcut(e, Nb(_, _)) ==
  \* own evaluations (pairs with index >= own, incl. itself) ...
  {Pair(e, f) : f \in {g \in {e} \cup Nb(Leaves, e) : Idx(e) <= Idx(g)}}
  \* ... plus what elements with a smaller index add to e
  \cup {Pair(g, e) : g \in {h \in Leaves : Idx(h) < Idx(e) /\ e \in Nb(Leaves, h)}}
AccumulateAgrees ==
  \A e \in Leaves : Shortcut(e, SpaceNbrs) = Direct(e, SpaceNbrs) /\ Shortcut(e, TimeNbrs) = Direct(e, TimeNbrs)
\* the shortcut counts a contribution exactly once: no element is its own neighbour (needs >= 3 per slab)
NoSelfNeighbour == \A e \in Leaves : e \notin SpaceNbrs(Leaves, e) /\ e \notin TimeNbrs(Leaves, e)

-----------------------------------------------------------------------------
(* Two-level estimators: the four virtual children of DummyElement.uniform_refinement in the
   order [v0,v01,vi,v30], [v01,v1,v12,vi], [v30,vi,v23,v3], [vi,v12,v2,v23], i.e.
   (early,left), (early,right), (late,left), (late,right); np.repeat(Phi, 4) follows that order;
   sign patterns time (+,+,-,-), space (+,-,+,-), checkerboard (+,-,-,+). *)
QuarterSeq(e) ==
  LET tm == (e.t0 + e.t1) \div 2  xm == (e.x0 + e.x1) \div 2 IN
  << [t0 |-> e.t0, t1 |-> tm, x0 |-> e.x0, x1 |-> xm], [t0 |-> e.t0, t1 |-> tm, x0 |-> xm, x1 |-> e.x1],
     [t0 |-> tm, t1 |-> e.t1, x0 |-> e.x0, x1 |-> xm], [t0 |-> tm, t1 |-> e.t1, x0 |-> xm, x1 |-> e.x1] >>
Geo(c) == [t0 |-> c.t0, t1 |-> c.t1, x0 |-> c.x0, x1 |-> c.x1]
\* real bisection `refine` (time, then space on both halves) produces the same four rectangles
QuartersAreRefine ==
  \A e \in Leaves : (e.lt < MaxL /\ e.lx < MaxL) =>
     {Geo(c) : c \in UNION {Children(h, 1) : h \in Children(e, 0)}} = {QuarterSeq(e)[k] : k \in 1..4}
SignTime == <<1, 1, -1, -1>>
SignSpace == <<1, -1, 1, -1>>
SignBoth == <<1, -1, -1, 1>>
\* the sign patterns are what their names say, as functions of (time half, space half)
SignsConsistent ==
  \A e \in Leaves : LET q == QuarterSeq(e)  tm == (e.t0 + e.t1) \div 2  xm == (e.x0 + e.x1) \div 2 IN
     \A k \in 1..4 :
        /\ SignTime[k] = (IF q[k].t1 <= tm THEN 1 ELSE -1)
        /\ SignSpace[k] = (IF q[k].x1 <= xm THEN 1 ELSE -1)
        /\ SignBoth[k] = SignTime[k] * SignSpace[k]
=============================================================================
