"""Shared plumbing of all checks: context, violations, known findings, evidence, replay files."""
import hashlib
import json
import os
import sys
import time

ROOT = os.path.dirname(os.path.dirname(os.path.abspath(__file__)))
REPO = os.environ.get("STBEM_REPO", "/repo")
# evidence / replays of development runs against a scratch copy of the repository (STBEM_REPO
# pointing elsewhere) never overwrite the files that belong to /repo itself
_SCR = "" if os.path.realpath(REPO) == "/repo" else os.path.join(".scratch", "mut")
EVID_DIR = os.path.join(ROOT, _SCR, "evidence")
REPLAY_DIR = os.path.join(ROOT, _SCR, "replays")
FINDINGS = os.path.join(ROOT, "known_findings.json")
GUARD = "STBEM_VERIF_TRACE"

LEVELS = {
    "C01": "exploration", "C02": "model_checking", "C03": "exploration", "C04": "exploration",
    "C05": "exploration", "C06": "model_checking", "C07": "exploration", "C08": "exploration",
    "C09": "exploration", "C10": "model_checking", "C11": "exploration", "C12": "exploration",
    "C13": "exploration", "C14": "exploration", "C15": "exploration", "C16": "model_checking",
    "C17": "model_checking", "C18": "exploration", "C19": "model_checking", "C20": "exploration",
}


def load_findings():
    try:
        with open(FINDINGS) as fh:
            return json.load(fh).get("findings", [])
    except FileNotFoundError:
        return []


class Ctx:
    """One run of one check."""

    def __init__(self, prop, tier, seed):
        self.prop = prop
        self.tier = tier
        self.seed = seed
        self.t0 = time.time()
        self.violations = []      # (key, text, replay_path)
        self.known_hits = {}      # finding id -> text
        self.drift = []           # diagnostic channel
        self.cov = {"evaluations": 0, "distinct_nontrivial": 0, "rule": "", "samples": []}
        self.assumptions = []
        self.extra = {}
        self.machinery = []       # machinery failures -> exit 2
        self._findings = [f for f in load_findings() if f.get("property") == prop]
        self._viol_keys = set()

    # -- reporting -------------------------------------------------------------------
    def log(self, *a):
        print(*a, flush=True)

    def machinery_error(self, text):
        self.machinery.append(text)
        print("MACHINERY-ERROR property=%s %s" % (self.prop, text), flush=True)

    def spec_drift(self, text):
        if getattr(self, "quiet", False):
            return
        if len(self.drift) < 50:
            self.drift.append(text)
        print("SPEC-DRIFT: property=%s %s" % (self.prop, text), flush=True)

    def violation(self, key, text, replay):
        """key: stable identifier of *what* fails (input / call site / history class);
        replay: JSON-serialisable description sufficient to reproduce."""
        for f in self._findings:
            if f.get("status", "open") == "open" and _matches(f, key, replay):
                if f["id"] not in self.known_hits:
                    self.known_hits[f["id"]] = f.get("what", text)
                return False
        if key in self._viol_keys:
            return True
        self._viol_keys.add(key)
        path = self.write_replay(key, text, replay)
        self.violations.append((key, text, path))
        return True

    def write_replay(self, key, text, replay):
        d = os.path.join(REPLAY_DIR, self.prop)
        os.makedirs(d, exist_ok=True)
        h = hashlib.sha1((self.prop + "|" + str(key)).encode()).hexdigest()[:12]
        path = os.path.join(d, h + ".json")
        with open(path, "w") as fh:
            json.dump({"property": self.prop, "key": str(key), "what": text, "replay": replay,
                       "tier": self.tier, "seed": self.seed}, fh, indent=1, default=str)
        return path

    # -- finish ----------------------------------------------------------------------
    def finish(self):
        wall = time.time() - self.t0
        level = LEVELS[self.prop]
        ev = {
            "property_id": self.prop, "tier": self.tier, "seed": int(self.seed), "level": level,
            "coverage": self.cov, "assumptions": self.assumptions, "wall_s": round(wall, 2),
            "violations": len(self.violations),
        }
        ev["coverage"].setdefault("samples", [])
        if self.drift:
            ev["coverage"]["spec_drift"] = self.drift
        if self.known_hits:
            ev["coverage"]["known_findings_hit"] = sorted(self.known_hits)
        if self.machinery:
            ev["coverage"]["machinery_errors"] = self.machinery
        ev["coverage"].update(self.extra)
        os.makedirs(EVID_DIR, exist_ok=True)
        with open(os.path.join(EVID_DIR, self.prop + ".json"), "w") as fh:
            json.dump(ev, fh, indent=1, default=str)
        for fid, what in sorted(self.known_hits.items()):
            print("KNOWN-FINDING: property=%s %s (%s)" % (self.prop, what, fid), flush=True)
        for key, text, path in self.violations:
            print("VIOLATION property=%s replay=%s" % (self.prop, path), flush=True)
            print("  what: %s" % text, flush=True)
        if self.violations:
            return 1
        if self.machinery:
            return 2
        print("OK property=%s tier=%s wall=%.1fs evaluations=%s" % (
            self.prop, self.tier, wall,
            self.cov.get("evaluations", self.cov.get("states"))), flush=True)
        return 0


def _matches(finding, key, replay):
    m = finding.get("match", {})
    if "key_prefix" in m and not str(key).startswith(m["key_prefix"]):
        return False
    if "key" in m and str(key) != m["key"]:
        return False
    if "key_in" in m and str(key) not in m["key_in"]:
        return False
    return bool(m)


def env_for_repo():
    e = dict(os.environ)
    e["PYTHONPATH"] = REPO + os.pathsep + ROOT
    e["PYTHONDONTWRITEBYTECODE"] = "1"
    e["PYTHONHASHSEED"] = "0"
    e[GUARD] = "1"
    return e


def setup_path():
    if REPO not in sys.path:
        sys.path.insert(0, REPO)
    sys.dont_write_bytecode = True
