"""./check <ID> --replay <path>: re-executes a recorded failing case against the current /repo where the case is
self-contained (mesh / quadtree histories, element pairs), otherwise prints the record."""
import json
import sys

from . import meshlib as ml
from .common import setup_path


def replay(prop, path):
    setup_path()
    rec = json.load(open(path))
    print("replay of %s: %s" % (rec.get("property"), rec.get("what")))
    r = rec.get("replay", {})
    try:
        if "ops" in r and "layout" in r and prop in ("C02", "C10", "C06", "C19"):
            return replay_mesh(r)
        if "ops" in r and "domain" in r and prop == "C16":
            return replay_quad(r)
        if prop == "C13" and "graded_job" in r:
            from .checks import c13_check
            o = c13_check._graded_job(tuple(r["graded_job"]))
            print("graded mesh %r -> %r" % (r["graded_job"], o))
            return 1 if o.get("lam", 1.0) <= 0.01 else 0
        if "record" in r and isinstance(r["record"], dict) and "te" in r["record"] and "curve" in r:
            return replay_pair(r)
    except Exception as ex:  # a failing replay is itself informative
        print("re-execution raised %r" % (ex,))
        return 1
    print(json.dumps(r, indent=1, default=str)[:4000])
    print("(record printed; this kind of case has no stand-alone re-execution)")
    return 0


def _op(o):
    o = list(o)
    if o[0] in ("bisect", "both"):
        o[1] = tuple(o[1])
    if o[0] in ("mark_iso",):
        o[1] = tuple(map(tuple, o[1]))
    if o[0] in ("mark_aniso",):
        o[1], o[2] = tuple(map(tuple, o[1])), tuple(map(tuple, o[2]))
    return tuple(o)


def replay_mesh(r):
    lay = r["layout"]
    if lay and lay[0] == "grid":
        from fractions import Fraction
        L = ml.Layout([Fraction(t) for t in lay[1]], [Fraction(x) for x in lay[2]], lay[3], r.get("maxl", 12))
    else:
        L = ml.Layout.uniform(lay[0], lay[1], lay[2], r.get("maxl", 12))
    if "sigma" in r:
        L.sigma = r["sigma"]
    mesh = L.new_mesh()
    for i, o in enumerate(r["ops"]):
        try:
            ml.apply_op(mesh, L, _op(o))
        except Exception as ex:
            print("step %d %r raised %r" % (i, o, ex))
            return 1
    order, problems = ml.observe(mesh, L)
    irr = ml.one_irregular(set(order), L) if order else []
    print("leaves after the history: %d; problems: %r; 1-irregularity violations: %d" % (len(order or ()), problems[:5], len(irr)))
    return 1 if problems or irr else 0


def replay_quad(r):
    from . import quadlib as ql
    dom = ql.Domain(r["domain"], r.get("maxlevel", 12))
    mesh = dom.new_mesh()
    ops = [tuple(o) for o in r["ops"]] + ([tuple(r["op"])] if r.get("op") else [])
    for i, o in enumerate(ops):
        o = list(o)
        o[1] = tuple(o[1]) if len(o) > 1 else None
        ev = ql.do_event(mesh, dom, tuple(x for x in o if x is not None))
        print("step %d %r -> exc=%r leaves=%d %s" % (i, o, ev["exc"], len(ev["post"]), {k: ev[k] for k in ("ret_has_edge", "endpoints_found") if k in ev}))
        if ev["exc"]:
            return 1
    return 0


def replay_pair(r):
    import math
    from . import panels_lib as pl
    from .oracles import heat_ref as hr
    rec = r["record"]
    sh = pl.Shape(r["curve"], r["MaxL"], r["TLevels"], r.get("time_unit"))
    fac = pl.Factory(sh, r.get("TH", 2))
    te, tr = tuple(rec["te"]), tuple(rec["tr"])
    Ete, Etr = fac.get(te), fac.get(tr)
    rc = hr.RefCurve(r["curve"])
    v = fac.SL.bilform(Etr, Ete)
    ref = hr.entry(rc, sh.real(te), sh.real(tr))
    D = math.sqrt(hr.diag(rc, sh.real(te)) * hr.diag(rc, sh.real(tr)))
    print("bilform = %r, reference = %r, |diff| / (1e-7 sqrt(D D)) = %.3g" % (float(v), ref, abs(v - ref) / (1e-7 * D)))
    bad = abs(v - ref) > 1e-7 * D
    if Ete.gamma_space is Etr.gamma_space:
        vx = fac.SLx.bilform(Etr, Ete)
        print("closed-form path = %r (reference / scale = %.3g)" % (float(vx), ref / D))
        bad = bad or abs(vx - ref) > 1e-7 * D or (ref > 1e-250 and not vx > 0) or (rec.get("chan") == "bilform" and ref > 1e-250 and not v > 0)
    return 1 if bad else 0
