"""Complete iterations of the unmodified adaptive driver (harness/loop_worker.py) as traces:
protocol steps for TraceLoop (C03), per-leaf orthogonality records (C03), TraceSTMesh events of the driver's own
refinement calls (C02 uniform, C06 Doerfler, C19 grading)."""
import json
import os
import subprocess

from . import record_mesh as rm
from .common import ROOT, env_for_repo


def run_loop(problem, domain, exact, refinement, estimator, grading, iters, hh2=0, hier=0, theta=0.9, sigma=2.0, quadrature="5355", workdir=None,
             timeout=2400):
    env = env_for_repo()
    env["OMP_NUM_THREADS"] = env["OPENBLAS_NUM_THREADS"] = "1"
    args = [problem, domain, int(exact), refinement, estimator, int(grading), iters, int(hh2), int(hier), theta, sigma, quadrature] + ([workdir] if workdir else [])
    cmd = ["/venv/bin/python", os.path.join(ROOT, "harness", "loop_worker.py")] + [str(a) for a in args]
    os.makedirs(os.path.join(ROOT, ".scratch"), exist_ok=True)
    try:
        p = subprocess.run(cmd, env=env, stdout=subprocess.PIPE, stderr=subprocess.PIPE, text=True, timeout=timeout, cwd=os.path.join(ROOT, ".scratch"))
        out, errtxt = p.stdout, p.stderr[-400:]
    except subprocess.TimeoutExpired:
        out, errtxt = "", "timeout"
    recs = [json.loads(l[2:]) for l in out.split("\n") if l.startswith("@@")]
    if not any(r["k"] == "run" for r in recs):
        recs.append({"k": "run", "mode": "loop", "problem": problem, "domain": domain, "exact": bool(exact), "exc": "worker died: " + errtxt[-200:], "iterations": 0})
    return args, recs


def mesh_events(recs):
    return [r["ev"] for r in recs if r["k"] == "mesh"]


def judge_mesh(domain, recs, timeout=900):
    """TraceSTMesh verdict on the driver's refinement calls: list of (event, clause), tlc result, number of events"""
    from .common import setup_path
    setup_path()
    from .checks.c13_check import ParamLayout
    evs = mesh_events(recs)
    if not evs:
        return [], None, 0
    lay = ParamLayout(domain, 1, 14, 1.0)
    bad, res = rm.judge(lay, evs, timeout=timeout)
    return [(evs[i - 1], c) for i, c in (bad or [])], res, len(evs)


def driver_block(ctx, configs, kinds, clauses, tag="driver"):
    """Run the driver for the given configurations, judge its refinement calls with TraceSTMesh and report the
    failing clauses of events whose kind is in `kinds` (plus a failed run).  Returns coverage statistics."""
    from concurrent.futures import ThreadPoolExecutor
    with ThreadPoolExecutor(max_workers=len(configs)) as ex:
        outs = list(ex.map(lambda a: run_loop(*a), configs))
    stats = []
    for cfg, (args, recs) in zip(configs, outs):
        run = [r for r in recs if r["k"] == "run"][-1]
        evs = mesh_events(recs)
        st = {"config": list(cfg), "iterations": run.get("iterations"), "mesh_events": len(evs),
              "events_of_interest": sum(1 for e in evs if e["k"] in kinds), "leaves_final": len(evs[-1]["post"]) if evs and evs[-1].get("post") else None}
        if run["exc"].startswith("worker died") or run["exc"] == "timeout":
            ctx.machinery_error("%s run %r: %s" % (tag, cfg, run["exc"]))
            stats.append(st)
            continue
        bad, res, n = judge_mesh(cfg[1], recs)
        if res is not None and res.machinery_error:
            ctx.machinery_error("%s judge: %s" % (tag, res.machinery_error))
        st["judge_tlc"] = res.stats() if res is not None else None
        for ev, clause in bad:
            if ev["k"] not in kinds and ev["k"] != "reset":
                continue
            if clause.startswith("d:"):
                ctx.spec_drift("%s %r: %s on a %s event" % (tag, cfg, clause, ev["k"]))
            elif clause in clauses:
                exc = ev.get("exc", "")
                key = "%s:%s:%s" % (tag, clause, ev["k"]) if clause != "call-failed" else "call-failed:%s" % (exc.split(":")[0],)
                ctx.violation(key, "clause %s fails on the driver's own %s call (example.py %r) %s" % (clause, ev.get("kind", ev["k"]), cfg, exc),
                              {"driver_config": list(cfg), "event": ev, "clause": clause})
        stats.append(st)
    if not any(s["events_of_interest"] for s in stats):
        ctx.machinery_error("%s: the driver produced no %s events" % (tag, "/".join(sorted(kinds))))
    return stats


def run_session(runs):
    """several complete first iterations of the driver from ONE working directory, one process each (Sessions.tla);
    runs: list of (problem, domain, exact, quadrature, hier).  Every estload record gets the configurations that ran before."""
    import shutil
    import tempfile
    work = tempfile.mkdtemp(prefix="sess.", dir=os.path.join(ROOT, ".scratch"))
    recs, priors = [], []
    try:
        for problem, domain, exact, quad, hier in runs:
            a, rr = run_loop(problem, domain, exact, "uniform", "sobolev", 0, 1, 0, hier, 0.9, 2.0, quad, work)
            for r in rr:
                if r["k"] == "estload":
                    r["priors"] = list(priors)
                    r["hier_enabled"] = bool(hier)
                if r["k"] != "mesh":
                    recs.append(r)
            priors.append({"problem": problem, "domain": domain, "exact": bool(exact), "q0": quad[0], "q1": "_".join(quad[1:]), "hier_enabled": bool(hier)})
    finally:
        shutil.rmtree(work, ignore_errors=True)
    return ("estimator-session",) + tuple(map(tuple, runs)), recs
