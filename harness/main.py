"""Entry point: ./check <ID> [--tier quick|thorough] [--replay PATH]"""
import argparse
import importlib
import os
import sys
import traceback

REGISTRY = {
    "C02": ("harness.checks.mesh_checks", "C02"),
    "C10": ("harness.checks.mesh_checks", "C10"),
    "C06": ("harness.checks.dorfler_check", "C06"),
    "C19": ("harness.checks.grade_check", "C19"),
    "C16": ("harness.checks.quad_check", "C16"),
    "C18": ("harness.checks.curves_check", "C18"),
    "C17": ("harness.checks.assembly_check", "C17"),
    "C01": ("harness.checks.c01_check", "C01"),
    "C13": ("harness.checks.c13_check", "C13"),
    "C05": ("harness.checks.rules_check", "C05"),
    "C15": ("harness.checks.schemes_check", "C15"),
    "C14": ("harness.checks.slobo_check", "C14"),
    "C07": ("harness.checks.eval_check", "C07"),
    "C09": ("harness.checks.sobolev_check", "C09"),
    "C08": ("harness.checks.m0_check", "C08"),
    "C03": ("harness.checks.c03_check", "C03"),
    "C20": ("harness.checks.twolevel_check", "C20"),
    "C04": ("harness.checks.pair_checks", "C04"),
    "C11": ("harness.checks.pair_checks", "C11"),
    "C12": ("harness.checks.pair_checks", "C12"),
}


def main():
    ap = argparse.ArgumentParser()
    ap.add_argument("prop")
    ap.add_argument("--tier", default=os.environ.get("VERIF_TIER", "quick"))
    ap.add_argument("--replay", default=None)
    a = ap.parse_args()
    tier = a.tier if a.tier in ("quick", "thorough") else "quick"
    seed = int(os.environ.get("VERIF_SEED", "0") or 0)
    if a.prop not in REGISTRY:
        print("unknown property", a.prop)
        return 2
    modname, pid = REGISTRY[a.prop]
    mod = importlib.import_module(modname)
    try:
        if a.replay:
            from . import replay as rp
            return rp.replay(pid, a.replay)
        return mod.run(pid, tier, seed)
    except SystemExit:
        raise
    except Exception:
        traceback.print_exc()
        print("MACHINERY-ERROR property=%s unhandled exception in the check" % a.prop)
        return 2


if __name__ == "__main__":
    sys.exit(main())
