"""Subprocess worker of the C03 check.

mode "example": runs the *unmodified* example.py with runpy (argv given), with runtime wrappers
recording the protocol phases, capturing (mat, rhs, Phi) from np.linalg.solve and the residual
closure from ErrorEstimator.residual, then stopping the driver.
mode "session": the same, after other problems were run from the same working directory (the
driver keeps ./data between runs).
mode "pipeline": executes the driver's own entry points on a randomly refined mesh.
Either way the residual is integrated over every leaf with an independent graded tensor rule whose
break points are the mesh lines crossing the leaf, and records are printed as JSON lines.
"""
import contextlib
import io
import json
import os
import random
import runpy
import sys
import tempfile

import numpy as np

REPO = os.environ.get("STBEM_REPO", "/repo")
sys.path.insert(0, REPO)


class Stop(Exception):
    pass


GX, GW = np.polynomial.legendre.leggauss(8)
GX, GW = (GX + 1) / 2, GW / 2


def graded(a, b, levels=3, q=0.25):
    """rule on [a, b] graded towards both ends"""
    edges = [1.0]
    for _ in range(levels):
        edges.append(edges[-1] * q)
    edges.append(0.0)
    edges = np.array(edges[::-1]) * 0.5
    xs, ws = [], []
    for l, r in zip(edges[:-1], edges[1:]):
        xs.append(l + (r - l) * GX)
        ws.append((r - l) * GW)
    s = np.concatenate(xs)
    w = np.concatenate(ws)
    s = np.concatenate([s, 1 - s[::-1]])
    w = np.concatenate([w, w[::-1]])
    return a + (b - a) * s, (b - a) * w


def leaf_integrals(elems, residual, levels=3, order="asc", only=None):
    """for every leaf: (int r, int |r|) with break points at all mesh lines crossing it.
    order: the order in which the (same) quadrature nodes are handed to the residual -- ascending in time, descending,
    or shuffled; the integral of a pointwise function does not depend on it."""
    ts = sorted({float(v) for e in elems for v in e.time_interval})
    xs = sorted({float(v) for e in elems for v in e.space_interval})
    out = []
    for e in (elems if only is None else only):
        t0, t1 = map(float, e.time_interval)
        x0, x1 = map(float, e.space_interval)
        tb = [t0] + [t for t in ts if t0 < t < t1] + [t1]
        xb = [x0] + [x for x in xs if x0 < x < x1] + [x1]
        T, WT, X, WX = [], [], [], []
        for a, b in zip(tb[:-1], tb[1:]):
            p, w = graded(a, b, levels)
            T.append(p), WT.append(w)
        for a, b in zip(xb[:-1], xb[1:]):
            p, w = graded(a, b, levels)
            X.append(p), WX.append(w)
        T, WT, X, WX = map(np.concatenate, (T, WT, X, WX))
        tt = np.repeat(T, len(X))
        xx = np.tile(X, len(T))
        if order == "asc":
            r = np.asarray(residual(tt, xx, e.gamma_space)).reshape(len(T), len(X))
        else:
            perm = np.arange(len(tt))[::-1] if order == "desc" else np.random.RandomState(len(tt)).permutation(len(tt))
            rp = np.asarray(residual(tt[perm], xx[perm], e.gamma_space)).reshape(-1)
            r = np.empty(len(tt))
            r[perm] = rp
            r = r.reshape(len(T), len(X))
        W = np.outer(WT, WX)
        out.append((float(np.sum(W * r)), float(np.sum(W * np.abs(r)))))
    return out


def emit(rec):
    sys.__stdout__.write("@@" + json.dumps(rec) + "\n")        # not the driver's redirected stdout
    sys.__stdout__.flush()


def records(problem, domain, exact, kind, elems, residual, mat, rhs, Phi, levels=3):
    if mat is not None:
        res = float(np.max(np.abs(mat @ Phi - rhs)) / max(np.max(np.abs(rhs)), 1e-300))
        emit({"k": "system", "problem": problem, "domain": domain, "exact": exact, "dev": int(min(1e9, np.ceil(1e6 * res / 1e-9)))})
    vals = leaf_integrals(elems, residual, levels)
    for e, (i1, ia) in zip(elems, vals):
        bound = 5e-5 * ia + 1e-12
        emit({"k": "leaf", "problem": problem, "domain": domain, "exact": exact, "mesh": kind, "n": len(elems),
              "elem": [list(map(float, e.time_interval)), list(map(float, e.space_interval))],
              "dev": int(min(1e9, np.ceil(1e6 * abs(i1) / bound))), "int_r": i1, "int_abs_r": ia})
    # the same rule with its nodes handed over in another order, on the leaves crossed by mesh lines (hanging nodes) first
    ts = sorted({float(v) for e in elems for v in e.time_interval})
    crossed = [e for e in elems if any(float(e.time_interval[0]) < t < float(e.time_interval[1]) for t in ts)]
    some = (crossed + [e for e in elems if e not in crossed])[:6]
    for order in ("desc", "shuffled"):
        for e, (i1, ia) in zip(some, leaf_integrals(elems, residual, levels, order=order, only=some)):
            bound = 5e-5 * ia + 1e-12
            emit({"k": "leaf", "problem": problem, "domain": domain, "exact": exact, "mesh": kind + "/nodes-" + order, "n": len(elems),
                  "elem": [list(map(float, e.time_interval)), list(map(float, e.space_interval))],
                  "dev": int(min(1e9, np.ceil(1e6 * abs(i1) / bound))), "int_r": i1, "int_abs_r": ia})


def run_example(problem, domain, exact, priors=(), workdir=None):
    """priors: problems run before, to their first residual, from the same working directory"""
    import shutil
    from src import error_estimator as ee
    from src import single_layer as sl
    cap = {}
    orig_solve = np.linalg.solve
    orig_res = ee.ErrorEstimator.residual
    orig_bm = sl.SingleLayerOperator.bilform_matrix

    def solve(a, b):
        x = orig_solve(a, b)
        if "mat" not in cap:
            cap.update(mat=np.array(a), rhs=np.array(b), Phi=np.array(x))
            emit({"k": "phase", "phase": "solve"})
        return x

    def residual(self, elems, Phi, SL, M0u0=None, g=None, SL_exact_eval=False):
        emit({"k": "phase", "phase": "residual"})
        cap["residual"] = orig_res(self, elems, Phi, SL, M0u0, g, SL_exact_eval=SL_exact_eval)
        cap["elems"] = list(elems)
        raise Stop()

    def bm(self, *a, **k):
        if "assembled" not in cap:
            cap["assembled"] = True
            emit({"k": "phase", "phase": "assemble"})
        return orig_bm(self, *a, **k)
    np.linalg.solve = solve
    ee.ErrorEstimator.residual = residual
    sl.SingleLayerOperator.bilform_matrix = bm
    old = sys.argv
    cwd = os.getcwd()
    work = workdir or tempfile.mkdtemp(prefix="c03.", dir=os.environ.get("VERIF_SCRATCH_DIR", "/verif/.scratch"))
    exc = ""
    mode = "session" if priors else "example"
    # every earlier run is a process of its own (the driver fixes the multiprocessing start method once per process)
    import subprocess
    for prob in priors:
        p = subprocess.run([sys.executable, os.path.abspath(__file__), "prior", prob, domain, "1" if exact else "0", work],
                           stdout=subprocess.PIPE, stderr=subprocess.PIPE, text=True)
        if '"exc": ""' not in p.stdout:
            exc = "prior run %s failed: %s" % (prob, (p.stdout + p.stderr)[-150:])
    os.chdir(work)
    try:
        for prob in [problem]:
            if exc:
                break
            cap.clear()
            sys.argv = ["example.py", "--problem", prob, "--domain", domain, "--no-h-h2"] + (["--single-layer-exact"] if exact else [])
            emit({"k": "phase", "phase": "configure"})
            buf = io.StringIO()
            try:
                with contextlib.redirect_stdout(buf):
                    runpy.run_path(os.path.join(REPO, "example.py"), run_name="__main__")
            except Stop:
                pass
            except BaseException as ex:
                exc = "%s: %s" % (type(ex).__name__, str(ex)[:150])
                break
            out = buf.getvalue()
            if priors and prob is problem:
                emit({"k": "session", "prior": priors[-1], "problem": problem, "domain": domain, "exact": exact,
                      "sl_hit": "Loaded Single Layer from file" in out, "m0_hit": "Loaded Initial Operator from file" in out})
    finally:
        sys.argv = old
        os.chdir(cwd)
        if workdir is None:
            shutil.rmtree(work, ignore_errors=True)
        np.linalg.solve = orig_solve
    if "residual" in cap and not exc:
        try:
            with contextlib.redirect_stdout(io.StringIO()):
                cap["residual"](np.array([0.5 * sum(map(float, cap["elems"][0].time_interval))]),
                                np.array([0.5 * sum(map(float, cap["elems"][0].space_interval))]), cap["elems"][0].gamma_space)
        except Exception as ex:
            exc = "residual evaluation: %s: %s" % (type(ex).__name__, str(ex)[:120])
    emit({"k": "run", "mode": mode, "problem": problem, "domain": domain, "exact": exact, "exc": exc})
    if "residual" in cap and not exc and workdir is None:
        kind = "driver-initial" if not priors else "driver-initial-after-" + "-".join(priors)
        records(problem, domain, exact, kind, cap["elems"], cap["residual"], cap.get("mat"), cap.get("rhs"), cap.get("Phi"))


def run_pipeline(problem, domain, exact, seed, nref):
    """the driver's lines on a refined mesh, through the same entry points"""
    from problems import problem_helper
    from src import initial_mesh as im
    from src import parametrization as pz
    from src.error_estimator import ErrorEstimator
    from src.initial_potential import InitialOperator
    from src.mesh import MeshParametrized
    from src.single_layer import SingleLayerOperator
    rng = random.Random(seed)
    exc = ""
    import multiprocessing
    multiprocessing.cpu_count = lambda: 3      # several workers run side by side; three pool processes each are enough to exercise the pool path
    try:
        with contextlib.redirect_stdout(io.StringIO()):
            mesh = MeshParametrized(getattr(pz, domain)())
            if domain == "LShape":
                for e in list(mesh.leaf_elements):
                    if e.h_x > 1:
                        mesh.refine_space(e)
            if nref < 0:
                # slab-graded mesh: three time slabs, the last one refined twice in space around one point (the closure
                # grades the slab below once): strictly nested space intervals in non-adjacent slabs
                def find(t, x):
                    for el in mesh.leaf_elements:
                        if el.time_interval[0] <= t < el.time_interval[1] and el.space_interval[0] <= x < el.space_interval[1]:
                            return el
                for el in list(mesh.leaf_elements):
                    mesh.refine_time(el)
                for el in list(mesh.leaf_elements):
                    if el.time_interval[0] >= 0.5 and not el.children:
                        mesh.refine_time(el)
                x0 = float(mesh.gamma_space.pw_start[0]) + 0.3 * float(mesh.gamma_space.pw_start[1] - mesh.gamma_space.pw_start[0])
                for _ in range(2):
                    mesh.refine_space(find(0.9, x0))
            for _ in range(max(nref, 0)):
                e = rng.choice(list(mesh.leaf_elements))
                ax = 1 if e.h_x ** 2 / e.h_t > 8 else rng.randrange(2)
                if ax == 0 and e.h_x ** 2 / e.h_t * 2 > 32:
                    ax = 1
                mesh.refine_axis(e, ax)
            data = problem_helper(problem, domain)
            SL = SingleLayerOperator(mesh, pw_exact=exact)
            elems = list(mesh.leaf_elements)
            emit({"k": "phase", "phase": "configure"})
            emit({"k": "phase", "phase": "assemble"})
            mat = SL.bilform_matrix(elems, elems, use_mp=True)        # the driver's own call
            rhs = np.zeros(len(elems))
            M0u0 = g = None
            if "u0" in data:
                initial_mesh = {"UnitSquare": im.UnitSquareBoundaryRefined, "PiSquare": im.PiSquareBoundaryRefined, "LShape": im.LShapeBoundaryRefined}[domain]
                M0 = InitialOperator(bdr_mesh=mesh, u0=data["u0"], initial_mesh=initial_mesh)
                rhs = -M0.linform_vector(elems=elems, use_mp=True)
                M0u0 = data["M0u0"]
            if "g" in data:
                g = data["g"]
                rhs += data["g-linform"](elems)
            emit({"k": "phase", "phase": "solve"})
            Phi = np.linalg.solve(mat, rhs)
            est = ErrorEstimator(mesh, N_poly=(5, 3, 5, 5))
            emit({"k": "phase", "phase": "residual"})
            residual = est.residual(elems, Phi, SL, M0u0, g, SL_exact_eval=SL.pw_exact)
    except BaseException as ex:
        exc = "%s: %s" % (type(ex).__name__, str(ex)[:150])
    if not exc:
        try:
            residual(np.array([0.5 * sum(map(float, elems[0].time_interval))]), np.array([0.5 * sum(map(float, elems[0].space_interval))]), elems[0].gamma_space)
        except Exception as ex:
            exc = "residual evaluation: %s: %s" % (type(ex).__name__, str(ex)[:120])
    emit({"k": "run", "mode": "pipeline", "problem": problem, "domain": domain, "exact": exact, "exc": exc})
    if not exc:
        records(problem, domain, exact, ("refined-%d" % nref) if nref >= 0 else "slab-graded", elems, residual, mat, rhs, Phi)


if __name__ == "__main__":
    mode, problem, domain, exact = sys.argv[1], sys.argv[2], sys.argv[3], sys.argv[4] == "1"
    if mode == "example":
        run_example(problem, domain, exact)
    elif mode == "prior":
        run_example(problem, domain, exact, workdir=sys.argv[5])
    elif mode == "session":
        run_example(problem, domain, exact, priors=tuple(sys.argv[5].split(",")))
    else:
        run_pipeline(problem, domain, exact, int(sys.argv[5]), int(sys.argv[6]))
