"""Closed-form heat extensions of initial data supported on unions of axis-parallel rectangles
(re-derived here; independent of /repo/problems.py) and their integrals over boundary elements."""
import math

import numpy as np
from scipy.special import erf

from .heat_ref import Rules

DOMAINS = {
    "UnitSquare": [(0.0, 1.0, 0.0, 1.0)],
    "PiSquare": [(0.0, math.pi, 0.0, math.pi)],
    "LShape": [(-1.0, 1.0, 0.0, 1.0), (0.0, 1.0, -1.0, 0.0)],
}


def m(k, t, x, xl, xr):
    """int_xl^xr (4 pi t)^(-1/2) exp(-(x - xi)^2 / 4t) xi^k dxi, k = 0, 1, 2"""
    s = 2.0 * np.sqrt(t)
    er, el = (xr - x) / s, (xl - x) / s
    m0 = 0.5 * (erf(er) - erf(el))
    if k == 0:
        return m0
    gr, gl = np.exp(-er ** 2), np.exp(-el ** 2)
    c = np.sqrt(t / math.pi)
    if k == 1:
        return x * m0 - c * (gr - gl)
    if k == 2:
        return (x * x + 2 * t) * m0 - c * ((xr + x) * gr - (xl + x) * gl)
    raise ValueError(k)


def msin(w, t, x, xl, xr):
    """int_xl^xr (4 pi t)^(-1/2) exp(-(x - xi)^2 / 4t) sin(w xi) dxi"""
    s = 2.0 * np.sqrt(t)
    z = 1j * w * t * 2.0            # shift: xi - x - 2 i w t
    val = np.exp(1j * w * x - w * w * t) * 0.5 * (erf((xr - x - z) / s) - erf((xl - x - z) / s))
    return val.imag


class U0:
    """u0(x, y) = sum of products f(x) g(y); factors: ('p', k) monomial, ('s', w) sine"""

    def __init__(self, terms):
        self.terms = terms      # list of (coeff, fx, fy)

    def __call__(self, xy):
        x, y = xy[0], xy[1]
        out = 0.0
        for c, fx, fy in self.terms:
            out = out + c * self._f(fx, x) * self._f(fy, y)
        return out + 0 * x

    @staticmethod
    def _f(f, v):
        return v ** f[1] if f[0] == "p" else np.sin(f[1] * v)

    def potential(self, domain, t, x, y):
        out = 0.0
        for (xl, xr, yb, yt) in DOMAINS[domain]:
            for c, fx, fy in self.terms:
                ax = m(fx[1], t, x, xl, xr) if fx[0] == "p" else msin(fx[1], t, x, xl, xr)
                ay = m(fy[1], t, y, yb, yt) if fy[0] == "p" else msin(fy[1], t, y, yb, yt)
                out = out + c * ax * ay
        return out


R = Rules(n=16, q=0.3, levels=18)


def element_integral(domain, u0, t0, t1, p0, p1):
    """int_{t0}^{t1} int_{segment p0 -> p1} (M0 u0)(t, x) ds dt; the potential has square-root layers at t -> 0 and
    near the corners of the domain: graded towards both ends in both variables."""
    p0, p1 = np.asarray(p0, float), np.asarray(p1, float)
    ln = float(np.linalg.norm(p1 - p0))
    s, ws = R.both(0.0, 1.0)
    tt, wt = R.both(t0, t1)
    X = p0[0] + (p1[0] - p0[0]) * s
    Y = p0[1] + (p1[1] - p0[1]) * s
    T = np.maximum(tt, 1e-300)
    V = u0.potential(domain, T[:, None], X[None, :], Y[None, :])
    return float(wt @ (V @ (ws * ln)))
