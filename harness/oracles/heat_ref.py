"""Independent reference values for the heat single-layer operator on the shipped curves.

Shares no code with /repo/src.  The double time integral is analytic:
    int_a^b int_c^d G(t - s, r) ds dt = F(b-d) - F(b-c) + F(a-c) - F(a-d),
    F(z) = (1/4pi) [ z e^{-q} - (r^2/4 + z) E1(q) ],  q = r^2 / (4 z)   (z > 0),  F(z) = 0 (z <= 0),
(F'' = -G, F(0+) = 0), and the two space integrals are iterated composite Gauss-Legendre rules
graded geometrically towards every point where the integrand is singular or nearly singular: both
ends of each interval, the end points of the other interval, and y = x when the two parameter
intervals overlap on the same piece.  Distances are computed from the exact geometry of the
curves (straight pieces: |x - y| on one piece, coordinates otherwise; circle: chord formula).
"""
import math

import numpy as np
from scipy.special import exp1

FPI = 1.0 / (4.0 * math.pi)


# ------------------------------------------------------------------------------------
# curves (own definitions)
# ------------------------------------------------------------------------------------
class RefCurve:
    def __init__(self, name):
        self.name = name
        if name == "UnitSquare":
            self.verts = np.array([[0, 0], [1, 0], [1, 1], [0, 1], [0, 0]], float)
        elif name == "PiSquare":
            self.verts = np.array([[0, 0], [math.pi, 0], [math.pi, math.pi], [0, math.pi], [0, 0]], float)
        elif name == "LShape":
            self.verts = np.array([[0, 0], [0, -1], [1, -1], [1, 1], [-1, 1], [-1, 0], [0, 0]], float)
        elif name == "ThinRect":          # 1 x 1/16 rectangle: far along the curve, near in the plane
            self.verts = np.array([[0, 0], [1, 0], [1, 0.0625], [0, 0.0625], [0, 0]], float)
        elif name == "UnitInterval":
            self.verts = np.array([[0, 0], [1, 0]], float)
        elif name == "Circle":
            self.verts = None
        else:
            raise ValueError(name)
        self.circle = name == "Circle"
        if self.circle:
            self.starts = np.array([0.0, 2 * math.pi])
            self.closed = True
        else:
            lens = np.linalg.norm(np.diff(self.verts, axis=0), axis=1)
            self.starts = np.concatenate([[0.0], np.cumsum(lens)])
            self.dirs = np.diff(self.verts, axis=0) / lens[:, None]
            self.closed = name != "UnitInterval"
        self.L = float(self.starts[-1])
        self.npieces = len(self.starts) - 1

    def piece_of(self, x0, x1):
        """index of the piece containing the parameter interval"""
        for i in range(self.npieces):
            if self.starts[i] - 1e-12 <= x0 and x1 <= self.starts[i + 1] + 1e-12:
                return i
        raise ValueError("interval (%r, %r) crosses a break point of %s" % (x0, x1, self.name))

    def point(self, x, piece):
        """coordinates (2, n) of parameters x on the given piece"""
        x = np.asarray(x, float)
        if self.circle:
            return np.vstack([np.cos(x), np.sin(x)])
        return self.verts[piece][:, None] + self.dirs[piece][:, None] * (x - self.starts[piece])[None, :]

    def offset2(self, D):
        """|gamma(x) - gamma(x + D)|^2 for x and x + D on the same piece"""
        if self.circle:
            return (2.0 * np.sin(0.5 * D)) ** 2
        return D ** 2

    def dist2(self, X, px, Y, py):
        """|gamma(X_i) - gamma(Y_ij)|^2, X of shape (n,), Y of shape (n, m) or (m,)"""
        X = np.asarray(X, float)
        Y = np.asarray(Y, float)
        if Y.ndim == 1:
            Y = np.broadcast_to(Y[None, :], (X.shape[0], Y.shape[0]))
        if self.circle:
            return (2.0 * np.sin(0.5 * (X[:, None] - Y))) ** 2
        if px == py:
            return (X[:, None] - Y) ** 2
        P = self.point(X, px)                      # (2, n)
        Q = self.verts[py][:, None, None] + self.dirs[py][:, None, None] * (Y - self.starts[py])[None, :, :]
        D = P[:, :, None] - Q
        return D[0] ** 2 + D[1] ** 2


# ------------------------------------------------------------------------------------
# graded rules
# ------------------------------------------------------------------------------------
class Rules:
    def __init__(self, n=16, q=0.25, levels=14):
        gx, gw = np.polynomial.legendre.leggauss(n)
        gx, gw = (gx + 1) / 2, gw / 2
        edges = [1.0]
        for _ in range(levels):
            edges.append(edges[-1] * q)
        edges.append(0.0)
        edges = np.array(edges[::-1])
        xs, ws = [], []
        for l, r in zip(edges[:-1], edges[1:]):
            xs.append(l + (r - l) * gx)
            ws.append((r - l) * gw)
        self.s0 = np.concatenate(xs)           # on [0,1], graded towards 0
        self.w0 = np.concatenate(ws)
        # on [0,1], graded towards both ends
        self.sb = np.concatenate([0.5 * self.s0, 1.0 - 0.5 * self.s0[::-1]])
        self.wb = np.concatenate([0.5 * self.w0, 0.5 * self.w0[::-1]])

    def both(self, a, b):
        return a + (b - a) * self.sb, (b - a) * self.wb

    def pieces(self, a, b, breaks):
        """rule on [a,b] graded towards both ends of every sub-interval cut by the break points"""
        pts = sorted(set([a, b] + [p for p in breaks if a < p < b]))
        X, W = [], []
        for l, r in zip(pts[:-1], pts[1:]):
            x, w = self.both(l, r)
            X.append(x)
            W.append(w)
        return np.concatenate(X), np.concatenate(W)


DEFAULT = Rules()
FINE = Rules(n=20, q=0.35, levels=24)


def F(z, r2):
    if z <= 0:
        return np.zeros_like(r2)
    q = r2 / (4.0 * z)
    return FPI * (z * np.exp(-q) - (0.25 * r2 + z) * exp1(q))


def Gtt(a, b, c, d, r2):
    return F(b - d, r2) - F(b - c, r2) + F(a - c, r2) - F(a - d, r2)


def entry(curve, test, trial, rules=DEFAULT):
    """<V 1_trial, 1_test>, elements given as (t0, t1, x0, x1)"""
    a, b, xa, xb = map(float, test)
    c, d, ya, yb = map(float, trial)
    if b <= c:
        return 0.0
    px, py = curve.piece_of(xa, xb), curve.piece_of(ya, yb)
    X, W = rules.pieces(xa, xb, [ya, yb])
    same = (px == py)
    total = 0.0
    if same and max(xa, ya) < min(xb, yb):
        inside = (X > ya) & (X < yb)
    else:
        inside = np.zeros(X.shape, bool)
    # nodes whose nearest trial point is an end point (or far away): inner rule graded to both ends
    out = ~inside
    if out.any():
        Y, WY = rules.both(ya, yb)
        CH = 256
        Xo, Wo = X[out], W[out]
        for k in range(0, len(Xo), CH):
            r2 = curve.dist2(Xo[k:k + CH], px, Y, py)
            total += float(Wo[k:k + CH] @ (Gtt(a, b, c, d, r2) @ WY))
    if inside.any():
        Xi, Wi = X[inside], W[inside]
        CH = 256
        for k in range(0, len(Xi), CH):
            x = Xi[k:k + CH]
            # left part [ya, x] graded towards x, right part [x, yb] graded towards x
            # y = x -/+ offset: distances from the offsets themselves (no cancellation near y = x)
            DL = (x - ya)[:, None] * rules.s0[None, :]
            WL = (x - ya)[:, None] * rules.w0[None, :]
            DR = (yb - x)[:, None] * rules.s0[None, :]
            WR = (yb - x)[:, None] * rules.w0[None, :]
            vL = np.sum(Gtt(a, b, c, d, curve.offset2(DL)) * WL, axis=1)
            vR = np.sum(Gtt(a, b, c, d, curve.offset2(DR)) * WR, axis=1)
            # the far ends of both parts may themselves be close to singular points of the *other*
            # kind (seam); the grading towards x covers y -> x only, the ends ya, yb are regular here
            total += float(Wi[k:k + CH] @ (vL + vR))
    return total


def diag(curve, elem, rules=DEFAULT):
    return entry(curve, elem, elem, rules)


def evaluate(curve, trial, t, xhat, xpiece=None, rules=DEFAULT):
    """(V 1_trial)(t, gamma(xhat)); time integral analytic through E1"""
    c, d, ya, yb = map(float, trial)
    if t <= c:
        return 0.0
    py = curve.piece_of(ya, yb)
    if xpiece is None:
        xpiece = curve.piece_of(xhat, xhat) if not curve.circle else 0
    X = np.array([float(xhat)])
    if (xpiece == py or curve.circle) and ya < xhat < yb:
        DL = (X - ya)[:, None] * rules.s0[None, :]
        WL = (X - ya)[:, None] * rules.w0[None, :]
        DR = (yb - X)[:, None] * rules.s0[None, :]
        WR = (yb - X)[:, None] * rules.w0[None, :]
        parts = [(curve.offset2(DL), WL), (curve.offset2(DR), WR)]
    else:
        Y, WY = rules.both(ya, yb)
        parts = [(curve.dist2(X, xpiece, Y[None, :], py), WY[None, :])]
    tot = 0.0
    for r2, Wt in parts:
        v = exp1(r2 / (4.0 * (t - c)))
        if t > d:
            v = v - exp1(r2 / (4.0 * (t - d)))
        tot += float(np.sum(FPI * v * Wt))
    return tot
