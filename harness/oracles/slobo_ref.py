"""Exact references for the Slobodeckij double integrals of polynomials (rational arithmetic)."""
import math
from fractions import Fraction as F


def quotient_coeffs(c):
    """p(s) = sum c_k s^k; (p(s)-p(t))/(s-t) = sum_k c_k sum_{i+j=k-1} s^i t^j -> dict (i,j)->coeff"""
    q = {}
    for k, ck in enumerate(c):
        for i in range(k):
            j = k - 1 - i
            q[(i, j)] = q.get((i, j), F(0)) + F(ck)
    return q


def square(q):
    d = {}
    for (i, j), u in q.items():
        for (k, l), v in q.items():
            d[(i + k, j + l)] = d.get((i + k, j + l), F(0)) + u * v
    return d


def h12_unit(c):
    """int_0^1 int_0^1 (p(s)-p(t))^2/(s-t)^2"""
    d = square(quotient_coeffs(c))
    return sum(v * F(1, i + 1) * F(1, j + 1) for (i, j), v in d.items())


def _beta32(j):
    """B(j+1, 3/2) = j! / prod_{m=0}^{j} (m + 3/2)"""
    num = F(math.factorial(j))
    den = F(1)
    for m in range(j + 1):
        den *= F(2 * m + 3, 2)
    return num / den


def h14_unit(c):
    """int_0^1 int_0^1 (p(s)-p(t))^2/|s-t|^{3/2} = int int |s-t|^{1/2} q(s,t)^2"""
    d = square(quotient_coeffs(c))
    tot = F(0)
    for (i, j), v in d.items():
        tot += v * (_beta32(j) + _beta32(i)) / F(2 * (i + j) + 5, 2)
    return tot


def h12(c, h):
    """polynomial given in the interval's affine coordinate s = (x-a)/h: the H^{1/2} integral is scale invariant"""
    return float(h12_unit(c))


def h14(c, h):
    """H^{1/4}: int int (..)^2/|x-y|^{3/2} dx dy = h^{1/2} * unit value"""
    return math.sqrt(h) * float(h14_unit(c))
