"""Extraction of the rule registry of src/quadrature_rules.py / src/quadrature.py from the *source
text* (Python ast), generation of spec/gen RulesData.tla, and the high-precision moment oracle."""
import ast
import os

import mpmath as mp

from .common import REPO

FAMILIES = {
    "log_quadrature_rule": "log", "log_log_quadrature_rule": "loglog", "sqrt_quadrature_rule": "sqrt",
    "sqrtinv_quadrature_rule": "sqrtinv", "gauss_sqrtinv_quadrature_rule": "gsqrtinv",
    "gauss_x_quadrature_rule": "gx", "gauss_log_quadrature_rule": "glog",
}
EXPORTS = {"LOG_QUAD_RULES": "log", "LOG_LOG_QUAD_RULES": "loglog", "SQRT_QUAD_RULES": "sqrt", "SQRTINV_QUAD_RULES": "sqrtinv"}


def extract(path=None):
    """returns dict: rules[(fam, key_tuple)] = dict(nodes=[str], weights=[str], returns=bool), exports[fam] = [key tuples]"""
    path = path or os.path.join(REPO, "src", "quadrature_rules.py")
    src = open(path).read()
    tree = ast.parse(src)
    rules, exports = {}, {}
    for node in tree.body:
        if isinstance(node, ast.Assign) and isinstance(node.targets[0], ast.Name) and node.targets[0].id in EXPORTS:
            exports[EXPORTS[node.targets[0].id]] = [tuple(k) for k in ast.literal_eval(node.value)]
        if isinstance(node, ast.FunctionDef) and node.name in FAMILIES:
            fam = FAMILIES[node.name]
            ifs = [s for s in node.body if isinstance(s, ast.If)]
            cur = ifs[0] if ifs else None
            while isinstance(cur, ast.If):
                key = ast.literal_eval(cur.test.comparators[0])
                key = tuple(key) if isinstance(key, tuple) else (key,)
                body = cur.body[0]
                val = body.value if isinstance(body, (ast.Return, ast.Expr)) else None
                returns = isinstance(body, ast.Return)
                nodes, weights = [], []
                if isinstance(val, ast.Tuple) and len(val.elts) == 2:
                    nodes = [ast.get_source_segment(src, e).replace(" ", "") for e in val.elts[0].elts]
                    weights = [ast.get_source_segment(src, e).replace(" ", "") for e in val.elts[1].elts]
                rules[(fam, key)] = {"nodes": nodes, "weights": weights, "returns": returns}
                cur = cur.orelse[0] if cur.orelse and isinstance(cur.orelse[0], ast.If) else None
    return rules, exports


def tla_key(key):
    return "<<" + ", ".join(str(k) for k in key) + ">>"


def rules_data_tla(rules, exports):
    """text of module RulesData (generated on every run from the current source)"""
    lines = ["---- MODULE RulesData ----", "(* generated from src/quadrature_rules.py by harness/rules_lib.py -- do not edit *)", "EXTENDS Integers, Sequences"]
    recs = []
    for (fam, key), r in sorted(rules.items(), key=lambda kv: (kv[0][0], kv[0][1])):
        recs.append('[fam |-> "%s", key |-> %s, nn |-> %d, nw |-> %d, ret |-> %s]'
                    % (fam, tla_key(key), len(r["nodes"]), len(r["weights"]), "TRUE" if r["returns"] else "FALSE"))
    lines.append("Registry == {\n  " + ",\n  ".join(recs) + "}")
    ex = []
    for fam, keys in sorted(exports.items()):
        for k in keys:
            ex.append('<<"%s", %s>>' % (fam, tla_key(k)))
    lines.append("Exported == {\n  " + ",\n  ".join(ex) + "}")
    lines.append("====")
    return "\n".join(lines) + "\n"


# ------------------------------------------------------------------------------------
# moments (closed forms) and errors
# ------------------------------------------------------------------------------------
def moment(part, k):
    k = mp.mpf(k)
    if part == "poly":
        return 1 / (k + 1)
    if part == "log":
        return -1 / (k + 1) ** 2
    if part == "log1m":
        return -(mp.digamma(k + 2) + mp.euler) / (k + 1)
    if part == "sqrt":
        return 1 / (k + mp.mpf(3) / 2)
    if part == "sqrtinv":
        return 1 / (k + mp.mpf(1) / 2)
    raise ValueError(part)


def weighted_moment(fam, k):
    k = mp.mpf(k)
    if fam == "gsqrtinv":
        return 1 / (k + mp.mpf(1) / 2)
    if fam == "gx":
        return 1 / (k + 2)
    if fam == "glog":
        return -1 / (k + 1) ** 2
    raise ValueError(fam)


def basis(part, x, k):
    if part == "poly" or part == "w":
        return x ** k
    if part == "log":
        return x ** k * mp.log(x)
    if part == "log1m":
        return x ** k * mp.log(1 - x)
    if part == "sqrt":
        return x ** k * mp.sqrt(x)
    if part == "sqrtinv":
        return x ** k / mp.sqrt(x)
    raise ValueError(part)


def obligations(fam, key, nn):
    """(part, k) pairs the rule (fam, key) with nn nodes must integrate exactly -- mirror of Rules.tla"""
    out = []
    if fam in ("log", "loglog", "sqrt", "sqrtinv"):
        P, Q = key
        out += [("poly", k) for k in range(P + 1)]
        second = {"log": "log", "loglog": "log", "sqrt": "sqrt", "sqrtinv": "sqrtinv"}[fam]
        out += [(second, k) for k in range(Q + 1)]
        if fam == "loglog":
            out += [("log1m", k) for k in range(Q + 1)]
    else:
        out += [("w", k) for k in range(2 * nn)]
    return out


def rel_error(fam, part, k, nodes, weights):
    """relative error of the moment; nodes/weights are mpf (literals) or floats"""
    if part == "w":
        m = weighted_moment(fam, k)
    else:
        m = moment(part, k)
    s = mp.fsum(w * basis(part, x, k) for x, w in zip(nodes, weights))
    return abs(s - m) / abs(m)
