"""Subprocess worker: runs the *unmodified* example.py for a number of complete iterations of the adaptive
loop under runtime wrappers (no source hooks) and prints one JSON record per line:

  {"k": "cfg", ...}                        the configuration (AdaptiveLoop.tla's cfg)
  {"k": "phase", "phase": p, ...}          one per observable protocol step (AdaptiveLoop.tla's obs)
  {"k": "mesh", "ev": {...}}               TraceSTMesh events: reset, then every refinement call of the driver
                                           (uniform / dorfler_* / grade) executed through record_mesh.do_event
  {"k": "leaf", ...}                       Galerkin orthogonality of the residual on every leaf, every iteration
  {"k": "run", ...}                        end of run (exception text if the driver failed)

usage: loop_worker.py problem domain exact refinement estimator grading iters hh2 hier [theta] [sigma] [quadrature] [workdir]
(with a workdir the run happens there and the directory is kept: several runs from one working directory, Sessions.tla;
 the run then also reports which estimator arrays the driver loaded from files)
"""
import contextlib
import io
import json
import os
import runpy
import shutil
import sys
import tempfile
from fractions import Fraction

import numpy as np

REPO = os.environ.get("STBEM_REPO", "/repo")
sys.path.insert(0, REPO)
sys.path.insert(0, "/verif")

from harness import c03_worker as cw          # noqa: E402  (graded rules, leaf integrals, emit)
from harness import meshlib as ml             # noqa: E402
from harness import record_mesh as rm         # noqa: E402
from harness.checks.c13_check import ParamLayout  # noqa: E402
from harness.checks.grade_check import grade_consts  # noqa: E402

emit = cw.emit


class Stop(Exception):
    pass


def marking_ok(vals, marked_idx, theta):
    """the marked contributions form a shortest prefix of the descending ordering whose sum reaches theta^2 * total
    (exact rational arithmetic; one part in 10^12 of slack for the driver's floating-point running sum)"""
    v = [Fraction(float(x)) for x in vals]
    tot = sum(v)
    th2 = Fraction(float(theta)) ** 2
    M = set(marked_idx)
    if not M:
        return False
    lo, hi = th2 * tot * (1 - Fraction(1, 10 ** 12)), th2 * tot * (1 + Fraction(1, 10 ** 12))
    s = sum(v[i] for i in M)
    smallest = min(v[i] for i in M)
    if any(v[i] > smallest for i in range(len(v)) if i not in M):
        return False                       # not a prefix of the descending ordering
    return s >= lo and s - smallest < hi   # reaches the bulk, and is shortest


def main():
    problem, domain, exact, refinement, estimator, grading, iters, hh2, hier = sys.argv[1:10]
    exact, grading, hh2, hier, iters = exact == "1", grading == "1", hh2 == "1", hier == "1", int(iters)
    theta = float(sys.argv[10]) if len(sys.argv) > 10 else 0.9
    sigma = float(sys.argv[11]) if len(sys.argv) > 11 else 2.0
    quadrature = sys.argv[12] if len(sys.argv) > 12 else "5355"
    workdir = sys.argv[13] if len(sys.argv) > 13 else None
    from src import error_estimator as ee
    from src import h_h2_error_estimator as hh
    from src import hierarchical_error_estimator as hi
    from src import initial_potential as ip
    from src import mesh as mm
    from src import single_layer as sl
    st = {"iter": 0, "seen": set(), "lay": None, "in_event": False, "mesh": None, "elems": None, "sys": None}

    def phase(p, **kw):
        emit(dict({"k": "phase", "phase": p, "iter": st["iter"]}, **kw))

    def once(p):
        if p in st["seen"]:
            return False
        st["seen"].add(p)
        phase(p)
        return True

    orig = {}

    def wrap(cls, name, fn):
        orig[(cls, name)] = getattr(cls, name)
        setattr(cls, name, fn(orig[(cls, name)]))

    # ---- iteration boundary: the driver dumps the mesh (no element data) first thing in every iteration
    def w_gmsh(f):
        def g(self, *a, **k):
            if k.get("element_data") is None and len(a) < 2 and not st["in_event"]:
                if st["iter"] >= iters:
                    raise Stop()
                st["iter"] += 1
                st["seen"] = set()
                st["sys"] = None
                if st["lay"] is None:
                    st["lay"] = ParamLayout(domain, 1, 14, 1.0)
                    st["mesh"] = self
                    st["in_event"] = True          # (the recorder's own bookkeeping checks call gmsh)
                    try:
                        emit({"k": "mesh", "ev": rm.reset_event(self, st["lay"], with_nbrs=False)})
                    finally:
                        st["in_event"] = False
                elif self is not st["mesh"]:
                    # the uniform + grading workaround built a new mesh object
                    phase("regrid-observed")
                    st["mesh"] = self
                    st["lay"] = None
                phase("iter", n=len(self.leaf_elements))
            return f(self, *a, **k)
        return g
    wrap(mm.Mesh, "gmsh", w_gmsh)

    def first(p, capture=None):
        def deco(f):
            def g(self, *a, **k):
                once(p)
                return f(self, *a, **k)
            return g
        return deco
    wrap(sl.SingleLayerOperator, "bilform_matrix", first("assemble"))
    wrap(ip.InitialOperator, "linform_vector", first("rhs"))
    wrap(hh.HH2ErrorEstimator, "estimate", first("hh2"))
    wrap(hi.HierarchicalErrorEstimator, "estimate", first("hier"))
    wrap(ee.ErrorEstimator, "estimate_weighted_l2", first("l2"))
    wrap(ee.ErrorEstimator, "estimate_sobolev", first("sobolev"))
    orig_isfile = os.path.isfile

    def isfile(path):
        r = orig_isfile(path)
        if r and "hierarch_" in str(path) and not st["in_event"]:
            once("hier-loaded")
        return r
    os.path.isfile = isfile
    orig_solve = np.linalg.solve

    def solve(a, b):
        x = orig_solve(a, b)
        if once("solve"):
            st["sys"] = (np.array(a), np.array(b), np.array(x))
        return x
    np.linalg.solve = solve

    def w_res(f):
        def g(self, elems, Phi, SL, M0u0=None, g=None, SL_exact_eval=False):
            once("residual")
            r = f(self, elems, Phi, SL, M0u0, g, SL_exact_eval=SL_exact_eval)
            # judge orthogonality now, on the driver's own mesh of this iteration
            try:
                mat, rhs, x = st["sys"] if st["sys"] else (None, None, None)
                with contextlib.redirect_stdout(io.StringIO()):
                    cw.records(problem, domain, exact, "driver-iteration-%d-%s%s" % (st["iter"], refinement, "-graded" if grading else ""),
                               list(elems), r, mat, rhs, x)
            except Exception as ex:
                emit({"k": "run", "mode": "loop", "problem": problem, "domain": domain, "exact": exact,
                      "exc": "residual evaluation: %s: %s" % (type(ex).__name__, str(ex)[:120])})
            return r
        return g
    wrap(ee.ErrorEstimator, "residual", w_res)

    # ---- refinement calls of the driver, executed through the TraceSTMesh event recorder
    def mesh_event(self, op, ph, extra=None, consts=None):
        if st["in_event"]:
            return False
        if st["lay"] is None or self is not st["mesh"]:
            # (a mesh object the recorder has no layout for: the regridded tensor mesh) -- protocol step only
            phase(ph, kind=op[0], exc="", unjudged=True)
            return False
        st["in_event"] = True
        try:
            pre = list(self.leaf_elements)
            ev = rm.do_event(self, st["lay"], op, with_nbrs=False, grade_consts=consts)
            if extra:
                ev.setdefault("book", {}).update(extra(ev, pre))
            emit({"k": "mesh", "ev": ev})
            phase(ph, kind=op[0], exc=ev["exc"])
            if ev["exc"]:
                raise RuntimeError("refinement failed: " + ev["exc"])
        finally:
            st["in_event"] = False
        return True

    def w_uniform(f):
        def g(self):
            if not mesh_event(self, ("uniform",), "refine"):
                return f(self)
        return g
    wrap(mm.Mesh, "uniform_refine", w_uniform)

    def w_iso(f):
        def g(self, eta_sqr, theta_):
            def extra(ev, pre):
                if ev["exc"]:
                    return {}
                order = [tuple(k) for k in ev_pre["post"]]
                idx = [order.index(tuple(k)) for k in ev["mt"] if tuple(k) in order]
                return {"marking-shortest-prefix": bool(marking_ok(list(eta_sqr), idx, theta_)),
                        "marked-both-directions": sorted(map(tuple, ev["mt"])) == sorted(map(tuple, ev["ms"]))}
            ev_pre = {"post": [list(k) for k in ml.project(self, st["lay"])]} if st["lay"] is not None and not st["in_event"] else None
            if not mesh_event(self, ("dorfler_iso", [float(x) for x in eta_sqr], float(theta_)), "refine", extra):
                return f(self, eta_sqr, theta_)
        return g
    wrap(mm.Mesh, "dorfler_refine_isotropic", w_iso)

    def w_aniso(f):
        def g(self, eta_sqr, theta_):
            def extra(ev, pre):
                if ev["exc"]:
                    return {}
                order = [tuple(k) for k in ev_pre["post"]]
                n = len(order)
                vals = [float(x) for x in np.asarray(eta_sqr)[:, 0]] + [float(x) for x in np.asarray(eta_sqr)[:, 1]]
                idx = [order.index(tuple(k)) for k in ev["mt"] if tuple(k) in order] + [n + order.index(tuple(k)) for k in ev["ms"] if tuple(k) in order]
                return {"marking-shortest-prefix": bool(marking_ok(vals, idx, theta_))}
            ev_pre = {"post": [list(k) for k in ml.project(self, st["lay"])]} if st["lay"] is not None and not st["in_event"] else None
            if not mesh_event(self, ("dorfler_aniso", [[float(a), float(b)] for a, b in np.asarray(eta_sqr)], float(theta_)), "refine", extra):
                return f(self, eta_sqr, theta_)
        return g
    wrap(mm.Mesh, "dorfler_refine_anisotropic", w_aniso)

    def w_grade(f):
        def g(self, sigma=2, K=4):
            consts = grade_consts(st["lay"], sigma) if st["lay"] is not None and K == 4 else None
            if consts is None and not st["in_event"]:
                phase("grade", kind="grade", exc="", unjudged=True)
                return f(self, sigma=sigma, K=K)
            if not mesh_event(self, ("grade", sigma), "grade", None, consts):
                return f(self, sigma=sigma, K=K)
        return g
    wrap(mm.Mesh, "refine_grading", w_grade)

    argv = ["example.py", "--problem", problem, "--domain", domain, "--refinement", refinement, "--estimator", estimator,
            "--theta", repr(theta), "--grading-sigma", repr(sigma), "--estimator-quadrature", quadrature]
    argv += ["--single-layer-exact"] if exact else []
    argv += ["--grading"] if grading else []
    argv += ["--h-h2"] if hh2 else ["--no-h-h2"]
    argv += ["--hierarchical"] if hier else ["--no-hierarchical"]
    emit({"k": "cfg", "problem": problem, "domain": domain, "exact": exact, "hh2": hh2, "hier": hier, "l2": True, "sobolev": True,
          "refinement": refinement, "estimator": estimator, "grading": grading, "iters": iters, "quadrature": quadrature})
    old, cwd = sys.argv, os.getcwd()
    work = workdir or tempfile.mkdtemp(prefix="loop.", dir=os.environ.get("VERIF_SCRATCH_DIR", "/verif/.scratch"))
    os.chdir(work)
    sys.argv = argv
    exc = ""
    buf = io.StringIO()
    try:
        with contextlib.redirect_stdout(buf):
            runpy.run_path(os.path.join(REPO, "example.py"), run_name="__main__")
    except Stop:
        pass
    except BaseException as ex:
        exc = rm.exc_text(ex) if isinstance(ex, Exception) else type(ex).__name__
    finally:
        sys.argv = old
        os.chdir(cwd)
        if workdir is None:
            shutil.rmtree(work, ignore_errors=True)
        np.linalg.solve = orig_solve
        os.path.isfile = orig_isfile
    if workdir is not None:
        out = buf.getvalue()
        emit({"k": "estload", "problem": problem, "domain": domain, "exact": exact, "q0": quadrature[0], "q1": "_".join(quadrature[1:]),
              "hier": "Hierarchical error estimator loaded from" in out, "wl2": "Loaded weighted L2 from" in out, "sob": "Loaded Sobolev from" in out,
              "m0": "Loaded Initial Operator from file" in out})
    emit({"k": "run", "mode": "loop", "problem": problem, "domain": domain, "exact": exact, "exc": exc, "iterations": st["iter"]})


if __name__ == "__main__":
    main()
