"""Shared machinery of the element-pair checks (C01, C04, C11, C12, C13): curve table, TLC
enumeration of pairs (Panels.tla), concretisation as real elements, classification mirror,
recorder of the panel decomposition, judge runner."""
import contextlib
import io
import json
import math
import multiprocessing as mp
import os
import re
import shutil
import tempfile

import numpy as np

from . import tlc
from .oracles import heat_ref as hr

# name -> (pieces, closed, unit length in real parameters, time unit)
CURVES = {
    "UnitSquare": ([1, 1, 1, 1], True, 1.0, 1.0),
    "PiSquare": ([1, 1, 1, 1], True, math.pi, 4.0),
    "LShape": ([1, 1, 2, 2, 1, 1], True, 1.0, 1.0),
    "Circle": ([1], True, 2 * math.pi, 1.0),
    "UnitInterval": ([1], False, 1.0, 1.0),
    "ThinRect": ([16, 1, 16, 1], True, 0.0625, 1.0 / 64),      # custom polygon accepted by PiecewisePolygon
}


def make_curve(name):
    from src import parametrization as pz
    if name == "ThinRect":
        v = [np.array([0.0, 0.0]), np.array([1.0, 0.0]), np.array([1.0, 0.0625]), np.array([0.0, 0.0625]), np.array([0.0, 0.0])]
        g = pz.PiecewisePolygon(v)
        return g
    return getattr(pz, name)()

MC = """---- MODULE %s ----
EXTENDS %s
PiecesDef == %s
====
"""
CFG_ENUM = """CONSTANTS Pieces <- PiecesDef Closed = %(Closed)s MaxL = %(MaxL)d TLevels = %(TLevels)d TH = %(TH)d MinPerSlab = 3
SPECIFICATION Spec
CHECK_DEADLOCK FALSE
INVARIANT IntegrateOK
INVARIANT ExactOK
INVARIANT CausalHasTerm
INVARIANT SplitTiles
"""
CFG_TRACE = """CONSTANTS Pieces <- PiecesDef Closed = %(Closed)s MaxL = %(MaxL)d TLevels = %(TLevels)d TH = %(TH)d MinPerSlab = 3
SPECIFICATION TSpec
INVARIANT Report
POSTCONDITION Done
CHECK_DEADLOCK FALSE
"""


def pieces_tla(name):
    return "<<" + ", ".join(map(str, CURVES[name][0])) + ">>"


def model_pairs(name, maxl, tlevels, th, timeout=1800):
    """Run Panels.tla exhaustively for the curve shape; returns (TLCResult, list of (test, trial))
    with elements as (t0, t1, x0, x1) integer tuples."""
    pieces, closed, unit, tunit = CURVES[name]
    dump = os.path.join(tlc._scratch(), "panels")
    cfg = CFG_ENUM % {"Closed": "TRUE" if closed else "FALSE", "MaxL": maxl, "TLevels": tlevels, "TH": th}
    res = tlc.run_tlc("MCPanels", cfg, timeout=timeout, dump=dump, aux_files={"MCPanels.tla": MC % ("MCPanels", "Panels", pieces_tla(name))})
    pairs = []
    if res.ok:
        with open(dump + ".dump") as fh:
            txt = fh.read()
        pat = re.compile(r"trial = \[x0 \|-> (\d+), x1 \|-> (\d+), t0 \|-> (\d+), t1 \|-> (\d+)\]\s*/\\ test = \[x0 \|-> (\d+), x1 \|-> (\d+), t0 \|-> (\d+), t1 \|-> (\d+)\]")
        for m in pat.finditer(txt):
            g = list(map(int, m.groups()))
            pairs.append(((g[6], g[7], g[4], g[5]), (g[2], g[3], g[0], g[1])))
        if not pairs:
            for s in tlc.read_dump(dump + ".dump"):
                te, tr = s["test"], s["trial"]
                pairs.append(((te["t0"], te["t1"], te["x0"], te["x1"]), (tr["t0"], tr["t1"], tr["x0"], tr["x1"])))
    shutil.rmtree(os.path.dirname(dump), ignore_errors=True)
    return res, pairs


# ------------------------------------------------------------------------------------
# classification mirror (for stratified sampling; the judge recomputes it in TLA+)
# ------------------------------------------------------------------------------------
class Shape:
    def __init__(self, name, maxl, tlevels, tunit=None):
        self.name = name
        self.pieces, self.closed, self.unit, self.tunit = CURVES[name]
        if tunit is not None:
            self.tunit = tunit            # time-graded population: same abstract pairs at a finer time scale
        self.U = 2 ** maxl
        self.UT = 2 ** tlevels
        self.maxl, self.tlevels = maxl, tlevels
        self.starts = [0]
        for p in self.pieces:
            self.starts.append(self.starts[-1] + self.U * p)
        self.L = self.starts[-1]

    def piece(self, e):
        for i in range(len(self.pieces)):
            if self.starts[i] <= e[2] and e[3] <= self.starts[i + 1]:
                return i
        raise ValueError(e)

    def admissible(self, e, f):
        """Can e and f occur as a pair the properties quantify over -- two leaves of one 1-irregular mesh, or a leaf and
        a leaf / child / quarter of a leaf?  Elements are space-time rectangles (t0, t1, x0, x1).
          * interiors overlap: only identical, child or quarter (nested, at most one level apart in each axis);
          * they share part of an edge: at most two levels apart along that edge (one between leaves of a 1-irregular
            mesh, one more for a child / quarter);
          * otherwise: always."""
        t_ov = min(e[1], f[1]) - max(e[0], f[0])          # > 0: time intervals overlap in a segment
        x_ov = min(e[3], f[3]) - max(e[2], f[2])
        ht = max(e[1] - e[0], f[1] - f[0]) / min(e[1] - e[0], f[1] - f[0])
        hx = max(e[3] - e[2], f[3] - f[2]) / min(e[3] - e[2], f[3] - f[2])
        if t_ov > 0 and x_ov > 0:
            nested = (e[0] <= f[0] and f[1] <= e[1] and e[2] <= f[2] and f[3] <= e[3]) or \
                     (f[0] <= e[0] and e[1] <= f[1] and f[2] <= e[2] and e[3] <= f[3])
            return nested and ht <= 2 and hx <= 2
        x_touch = x_ov == 0 or (self.closed and ((e[2] == 0 and f[3] == self.L) or (f[2] == 0 and e[3] == self.L)))
        if t_ov > 0 and x_touch:
            return ht <= 4
        if x_ov > 0 and t_ov == 0:
            return hx <= 4
        return True

    def space_rel(self, e, f):
        a, b, c, d = e[2], e[3], f[2], f[3]
        same = self.piece(e) == self.piece(f)
        if a == c and b == d:
            return "identical"
        if (a == c or b == d) and same:
            return "nested-aligned"
        if (a < c and d < b) or (c < a and b < d):
            return "nested-interior"
        if (b == c or d == a) and same:
            return "touch"
        if b == c or d == a:
            return "corner"
        if self.closed and ((a == 0 and d == self.L) or (c == 0 and b == self.L)):
            return "seam-smooth" if len(self.pieces) == 1 else "seam-corner"
        gap = c - b if b < c else a - d
        wrap = self.L - gap - (b - a) - (d - c)
        return ("disjoint-same" if same else "disjoint-other") + ("-nearer-through-seam" if self.closed and wrap < gap else "")

    @staticmethod
    def allen(e, f):
        a, b, c, d = e[0], e[1], f[0], f[1]
        if b < c:
            return "before"
        if b == c:
            return "meets"
        if a > d:
            return "after"
        if a == d:
            return "met-by"
        if a == c and b == d:
            return "equals"
        if a == c:
            return "starts" if b < d else "started-by"
        if b == d:
            return "finishes" if a > c else "finished-by"
        if a > c and b < d:
            return "during"
        if a < c and b > d:
            return "contains"
        return "overlaps" if a < c else "overlapped-by"

    def real(self, e):
        """abstract element -> real (t0, t1, x0, x1) for the reference integrator"""
        return (e[0] / self.UT * self.tunit, e[1] / self.UT * self.tunit, e[2] / self.U * self.unit, e[3] / self.U * self.unit)

    def aspect(self, e):
        t0, t1, x0, x1 = self.real(e)
        return (x1 - x0) ** 2 / (t1 - t0)


# ------------------------------------------------------------------------------------
# concretisation: real elements by real bisection of a real MeshParametrized
# ------------------------------------------------------------------------------------
class Factory:
    def __init__(self, shape, th):
        from src import parametrization as pz
        from src.mesh import MeshParametrized
        from src.single_layer import SingleLayerOperator
        self.shape = shape
        self.th = th
        self.gamma = make_curve(shape.name)
        self.MeshParametrized = MeshParametrized
        self.cache = {}
        with contextlib.redirect_stdout(io.StringIO()):
            self.mesh = self.new_mesh()
            self.SL = SingleLayerOperator(self.mesh)
            self.SLx = SingleLayerOperator(self.mesh, pw_exact=True)

    def new_mesh(self):
        sh = self.shape
        tg = [j * sh.tunit for j in range(self.th + 1)]
        # space grid: unit pieces (long pieces are split into units unless the target is the whole piece)
        return self.MeshParametrized(self.gamma, initial_time_mesh=tg)

    def get(self, e):
        """real leaf Element with the abstract coordinates e (bisecting a fresh mesh down to it)"""
        if e in self.cache:
            return self.cache[e]
        sh = self.shape
        t0, t1, x0, x1 = sh.real(e)
        with contextlib.redirect_stdout(io.StringIO()):
            mesh = self.new_mesh()
            for _ in range(64):
                cur = None
                for el in mesh.leaf_elements:
                    ta, tb = el.time_interval
                    xa, xb = el.space_interval
                    if ta <= t0 + 1e-12 and t1 <= tb + 1e-12 and xa <= x0 + 1e-12 and x1 <= xb + 1e-12:
                        cur = el
                        break
                if cur is None:
                    raise RuntimeError("no leaf contains %r" % (e,))
                ta, tb = cur.time_interval
                xa, xb = cur.space_interval
                st = abs((tb - ta) - (t1 - t0)) < 1e-12 * max(1.0, tb)
                sx = abs((xb - xa) - (x1 - x0)) < 1e-12 * max(1.0, xb)
                if st and sx:
                    break
                if not sx and (st or (xb - xa) / (x1 - x0) >= (tb - ta) / (t1 - t0)):
                    mesh.refine_space(cur)
                else:
                    mesh.refine_time(cur)
            else:
                raise RuntimeError("could not reach %r" % (e,))
            self.SL._init_elems([cur])
        self.cache[e] = cur
        return cur


class PanelRecorder:
    """records the terminal quadrature panels of one bilform call (diagnostic channel)"""

    def __init__(self, SL, shape):
        self.SL, self.shape = SL, shape
        self.calls = []

    def __enter__(self):
        from src.quadrature import QuadScheme2D
        self.cls = QuadScheme2D
        self.orig = QuadScheme2D.integrate
        SL = self.SL
        tags = {id(SL.duff_log_log): "duffy", id(SL.duff_log_log.mirror_x()): "duffy_mx", id(SL.duff_log_log.mirror_y()): "duffy_my",
                id(SL.log_log.mirror_x()): "loglog_mx", id(SL.log_log.mirror_y()): "loglog_my"}
        rec = self

        def wrapped(scheme, f, a, b, c, d):
            rec.calls.append((a, b, c, d, tags.get(id(scheme), "other")))
            return rec.orig(scheme, f, a, b, c, d)
        QuadScheme2D.integrate = wrapped
        return self

    def __exit__(self, *a):
        self.cls.integrate = self.orig

    def panels(self):
        sh = self.shape
        out = []
        for a, b, c, d, tag in self.calls:
            vals = [v / sh.unit * sh.U for v in (a, b, c, d)]
            ints = [int(round(v)) for v in vals]
            if max(abs(v - i) for v, i in zip(vals, ints)) > 1e-6:
                return None
            out.append(ints + [tag])
        return out


# ------------------------------------------------------------------------------------
# reference values in parallel
# ------------------------------------------------------------------------------------
_REFC = {}


def _ref_job(job):
    name, te, tr = job
    c = _REFC.get(name)
    if c is None:
        c = _REFC[name] = hr.RefCurve(name)
    return hr.entry(c, te, tr)


def ref_entries(jobs, procs=16):
    """jobs: list of (curve name, real test tuple, real trial tuple) -> list of floats"""
    uniq = list(dict.fromkeys(jobs))
    if not uniq:
        return {}
    with mp.get_context("fork").Pool(procs) as pool:
        vals = pool.map(_ref_job, uniq, chunksize=max(1, len(uniq) // (procs * 8)))
    return dict(zip(uniq, vals))


# ------------------------------------------------------------------------------------
# judge
# ------------------------------------------------------------------------------------
def judge(name, maxl, tlevels, th, records, required, timeout=3000):
    pieces, closed, unit, tunit = CURVES[name]
    work = tempfile.mkdtemp(prefix="pj.", dir=tlc._scratch())
    path = os.path.join(work, "trace.json")
    payload = [{"k": "header", "required": [list(r) for r in sorted(required)]}] + [dict(r, k="rec") for r in records]
    with open(path, "w") as fh:
        json.dump(payload, fh)
    cfg = CFG_TRACE % {"Closed": "TRUE" if closed else "FALSE", "MaxL": maxl, "TLevels": tlevels, "TH": th}
    res = tlc.run_tlc("MCTracePanels", cfg, workers=1, timeout=timeout, env={"TRACE_FILE": path},
                      aux_files={"MCTracePanels.tla": MC % ("MCTracePanels", "TracePanels", pieces_tla(name))})
    shutil.rmtree(work, ignore_errors=True)
    bad = missing = None
    mm = re.search(r'<<\s*"BAD",\s*(\{.*?\}),\s*"MISSING",\s*(\{.*?\})\s*>>', res.output, flags=re.S)
    if mm:
        bad = sorted((t[0] - 2, t[1]) for t in tlc.parse_value(mm.group(1)))
        missing = sorted(tuple(t) for t in tlc.parse_value(mm.group(2)))
    if bad is None and res.machinery_error is None:
        res.machinery_error = "judge produced no verdict: " + res.output[-400:]
    return bad, missing, res
