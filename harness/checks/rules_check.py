"""C05: every tabulated quadrature rule is exact for its advertised function class.

RulesData.tla is extracted from the source text on every run; Rules.tla states the registry facts
(TLC checks them) and defines the obligations <<family, key, part, degree>>; each obligation is
measured twice -- at 80 digits on the literals as written (tolerance 1e-30) and in double precision
on the values the functions return (1e-13) -- and judged by TLC (TraceRules), which also computes
the set of obligations that were never exercised from the extracted registry itself.
"""
import json
import os
import re
import shutil
import tempfile

import mpmath as mp

from .. import rules_lib as rl
from .. import tlc
from ..common import Ctx, setup_path

INVS = ["EveryKeyReturns", "CountsMatch", "KeysUnique", "ExportedAvailable", "KnownFamilies", "ConstructorsLand", "GaussEnoughPoints"]
CFG = "SPECIFICATION Spec\nCHECK_DEADLOCK FALSE\n" + "".join("INVARIANT %s\n" % i for i in INVS)
CFG_T = "SPECIFICATION TSpec\nINVARIANT Report\nPOSTCONDITION Done\nCHECK_DEADLOCK FALSE\n"
FUNCS = {v: k for k, v in rl.FAMILIES.items()}


def capdev(err, tol):
    try:
        d = err / tol
        return int(min(mp.mpf(10) ** 9, mp.ceil(d * 10 ** 6)))
    except Exception:
        return 10 ** 9


def run(prop, tier, seed):
    setup_path()
    ctx = Ctx("C05", tier, seed)
    mp.mp.dps = 80
    rules, exports = rl.extract()
    data = rl.rules_data_tla(rules, exports)
    # 1. registry facts
    res = tlc.run_tlc("Rules", CFG, timeout=600, aux_files={"RulesData.tla": data})
    reg = {"tlc": res.stats(), "rules": len(rules), "exported_pairs": sum(len(v) for v in exports.values())}
    if res.machinery_error:
        ctx.machinery_error("Rules.tla: " + res.machinery_error)
    elif not res.ok:
        failing = []
        for inv in INVS:
            r1 = tlc.run_tlc("Rules", "SPECIFICATION Spec\nCHECK_DEADLOCK FALSE\nINVARIANT %s\n" % inv, timeout=600, aux_files={"RulesData.tla": data})
            if not r1.ok and not r1.machinery_error:
                failing.append(inv)
        for inv in failing:
            # name the offending keys (python mirror, for the message and the finding key only)
            who = offenders(inv, rules, exports)
            for w in who or ["?"]:
                ctx.violation("registry:%s:%s" % (inv, w), "Rules.tla invariant %s fails for %s" % (inv, w), {"invariant": inv, "entry": w})
        reg["violated"] = failing
    # 2. measurements
    import importlib
    qr = importlib.import_module("src.quadrature_rules")
    recs = []
    worst30, worst13 = {}, {}
    for (fam, key), r in sorted(rules.items(), key=lambda kv: (kv[0][0], kv[0][1])):
        f = getattr(qr, FUNCS[fam])
        try:
            ret = f(*key)
        except AssertionError:
            ret = None
        shape = {"k": "shape", "fam": fam, "key": list(key), "returned": ret is not None, "counts": False, "inside": False, "onesign": False}
        if ret is not None:
            xs, ws = list(ret[0]), list(ret[1])
            shape["counts"] = len(xs) == len(ws) and len(xs) == len(r["nodes"])
            shape["inside"] = all(0.0 < float(x) < 1.0 for x in xs)
            shape["onesign"] = all(w > 0 for w in ws) or all(w < 0 for w in ws)
        recs.append(shape)
        if ret is None:
            continue
        lit_x = [mp.mpf(s) for s in r["nodes"]]
        lit_w = [mp.mpf(s) for s in r["weights"]]
        dx = [mp.mpf(float(x)) for x in xs]
        dw = [mp.mpf(float(w)) for w in ws]
        n = min(len(lit_x), len(lit_w))
        for part, k in rl.obligations(fam, key, len(r["nodes"])):
            e30 = rl.rel_error(fam, part, k, lit_x[:n], lit_w[:n])
            e13 = rl.rel_error(fam, part, k, dx[:min(len(dx), len(dw))], dw[:min(len(dx), len(dw))])
            d30, d13 = capdev(e30, mp.mpf("1e-30")), capdev(e13, mp.mpf("1e-13"))
            recs.append({"k": "ob", "fam": fam, "key": list(key), "part": part, "deg": k, "dev30": d30, "dev13": d13})
            worst30[(fam, key)] = max(worst30.get((fam, key), 0), d30)
            worst13[(fam, key)] = max(worst13.get((fam, key), 0), d13)
    # 2b. the scheme constructors of src/quadrature.py hand out exactly the tabulated rule, whatever was requested before
    #     (requests are repeated in a second, interleaved order: a constructor must not depend on the call history)
    q = importlib.import_module("src.quadrature")
    CONS = {"log": q.log_quadrature_scheme, "loglog": q.log_log_quadrature_scheme, "sqrt": q.sqrt_quadrature_scheme, "sqrtinv": q.sqrtinv_quadrature_scheme}
    import numpy as np
    keys_by_fam = {f: [k for (ff, k) in sorted(rules) if ff == f and rules[(ff, k)]["returns"]] for f in CONS}
    order1 = [(f, k) for f in ("log", "loglog", "sqrt", "sqrtinv") for k in keys_by_fam[f]]
    order2 = [(f, k) for k in sorted({k for f in CONS for k in keys_by_fam[f]}) for f in ("sqrtinv", "sqrt", "loglog", "log") if k in keys_by_fam[f]]
    for which, order in (("first-pass", order1), ("interleaved-pass", order2)):
        for fam, key in order:
            # the property's own criterion (not bitwise identity with the table: a harmless renormalisation is allowed):
            # the scheme handed out for a key integrates every function of that key's class to 1e-13
            try:
                sc = CONS[fam](*key)
                xs = [mp.mpf(float(x)) for x in sc.points]
                ws = [mp.mpf(float(w)) for w in sc.weights]
                worst_e = max([rl.rel_error(fam, part, k, xs, ws) for part, k in rl.obligations(fam, key, len(xs))] or [mp.mpf(0)])
                same = worst_e <= mp.mpf("1e-13") and all(0 < float(x) < 1 for x in sc.points)
                # a caller may map the scheme it was handed to its own interval in place; later requests must not see that
                try:
                    sc.points *= 3.0
                    sc.weights *= 0.5
                except (ValueError, TypeError):
                    pass            # read-only or integer arrays: nothing to mutate
            except Exception as ex:
                same, worst_e = False, repr(ex)[:80]
            if not same:
                ctx.violation("constructor-mismatch:%s:%s" % (fam, ",".join(map(str, key))),
                              "%s_quadrature_scheme%r does not integrate the class of its key (%s; worst relative error %s)" % (fam, key, which, worst_e),
                              {"family": fam, "key": list(key), "pass": which})
    # Gauss-type constructors: requested by polynomial degree, exact against the stated weight up to that degree
    gcons = [("gsqrtinv", q.gauss_sqrtinv_quadrature_scheme, [n for n in range(1, 24, 2)]),
             ("gx", q.gauss_x_quadrature_scheme, [n for n in range(1, 22, 2)]),
             ("glog", q.gauss_log_quadrature_scheme, [n for n in range(0, 16)])]
    ncons = 0
    for fam, cons, degs in gcons + list(reversed(gcons)):      # second pass in the opposite family order (call history)
        for npoly in degs:
            if (fam, ((npoly + 1) // 2,)) not in rules or not rules[(fam, ((npoly + 1) // 2,))]["returns"]:
                continue        # the constructor can only be asked for degrees whose key is tabulated
            try:
                sc = cons(npoly)
                xs = [mp.mpf(float(x)) for x in sc.points]
                ws = [mp.mpf(float(w)) for w in sc.weights]
                worst_e = max(rl.rel_error(fam, "w", k, xs, ws) for k in range(npoly + 1))
                okc = worst_e <= mp.mpf("1e-13")
                try:
                    sc.points *= 3.0
                    sc.weights *= 0.5
                except (ValueError, TypeError):
                    pass
            except Exception as ex:
                okc, worst_e = False, repr(ex)[:80]
            ncons += 1
            if not okc:
                ctx.violation("constructor-degree:%s:%d" % (fam, npoly), "gauss-type scheme constructor of family %s requested for degree %d is not exact up to that degree (%s)"
                              % (fam, npoly, worst_e), {"family": fam, "N_poly": npoly})
    # 3. judge
    work = tempfile.mkdtemp(prefix="rules.", dir=tlc._scratch())
    path = os.path.join(work, "trace.json")
    with open(path, "w") as fh:
        json.dump(recs, fh)
    jres = tlc.run_tlc("TraceRules", CFG_T, workers=1, timeout=1800, env={"TRACE_FILE": path}, aux_files={"RulesData.tla": data})
    shutil.rmtree(work, ignore_errors=True)
    mm = re.search(r'<<\s*"BAD",\s*(\{.*?\}),\s*"MISSING",\s*(\{.*\})\s*>>', jres.output, flags=re.S)
    if not mm:
        ctx.machinery_error("TraceRules: " + (jres.machinery_error or jres.output[-300:]))
    else:
        bad = sorted((t[0], t[1]) for t in tlc.parse_value(mm.group(1)))
        missing = tlc.parse_value(mm.group(2))
        groups = {}
        for l, clause in bad:
            r = recs[l - 1]
            groups.setdefault((clause, r["fam"], tuple(r["key"])), []).append(r)
        for (clause, fam, key), rs in sorted(groups.items()):
            w = max(rs, key=lambda r: max(r.get("dev30", 0), r.get("dev13", 0)))
            ctx.violation("%s:%s:%s" % (clause, fam, ",".join(map(str, key))),
                          "%s for %s%r (%d obligations; worst at part %s degree %s: dev30=%s dev13=%s millionths of the tolerance)"
                          % (clause, FUNCS[fam], key, len(rs), w.get("part"), w.get("deg"), w.get("dev30"), w.get("dev13")),
                          {"family": fam, "function": FUNCS[fam], "key": list(key), "clause": clause, "worst": w})
        if missing:
            ctx.machinery_error("obligations never exercised: %r" % (sorted(map(str, missing))[:5],))
    # binding self-test
    st_self = {}
    bad_recs = [dict(r) for r in recs[:40]]
    k = next(i for i, r in enumerate(bad_recs) if r["k"] == "ob")
    bad_recs[k]["dev30"] = 3_000_000
    p2 = os.path.join(tlc._scratch(), "t2.json")
    with open(p2, "w") as fh:
        json.dump(bad_recs, fh)
    j2 = tlc.run_tlc("TraceRules", CFG_T, workers=1, timeout=600, env={"TRACE_FILE": p2}, aux_files={"RulesData.tla": data})
    os.remove(p2)
    st_self["corrupted_dev_rejected"] = "literal-moment-1e-30" in j2.output
    st_self["dropped_records_reported_missing"] = '"MISSING"' in j2.output and not re.search(r'"MISSING",\s*\{\s*\}', j2.output)
    if not all(st_self.values()):
        ctx.machinery_error("binding self-test failed: %r" % st_self)
    nob = sum(1 for r in recs if r["k"] == "ob")
    ctx.cov = {
        "evaluations": len(recs), "distinct_nontrivial": nob,
        "rule": "one record per obligation <<family, key, part, degree>> of Rules.tla over the registry extracted from the source (all %d rules), "
                "plus one shape record per rule; the space is finite and enumerated completely" % len(rules),
        "samples": [recs[0], recs[1], recs[-1]], "exhaustive": True, "registry": reg, "judge_tlc": jres.stats(),
        "scheme_constructor_requests": len(order1) + len(order2) + ncons,
        "worst_literal_dev_millionths": max(worst30.values()) if worst30 else None,
        "worst_double_dev_millionths": max(worst13.values()) if worst13 else None, "binding_selftest": st_self,
    }
    ctx.assumptions = ["moments evaluated with mpmath at 80 digits on the decimal literals parsed from the source text (not interval arithmetic; rounding error ~1e-78)",
                       "Gauss families: exactness demanded up to degree 2n-1 for the n nodes tabulated"]
    return ctx.finish()


def offenders(inv, rules, exports):
    out = []
    if inv == "EveryKeyReturns":
        out = ["%s%r" % (f, k) for (f, k), r in rules.items() if not r["returns"]]
    elif inv == "CountsMatch":
        out = ["%s%r" % (f, k) for (f, k), r in rules.items() if len(r["nodes"]) != len(r["weights"]) or not r["nodes"]]
    elif inv == "ExportedAvailable":
        out = ["%s%r" % (f, k) for f, ks in exports.items() for k in ks if (f, k) not in rules or not rules[(f, k)]["returns"]]
    elif inv == "ConstructorsLand":
        req = [("gsqrtinv", ((n + 1) // 2,)) for n in range(1, 24, 2)] + [("gx", ((n + 1) // 2,)) for n in range(1, 22, 2)] + [("log", (12, 12))]
        out = ["%s%r" % (f, k) for f, k in req if (f, k) not in rules or not rules[(f, k)]["returns"]]
    elif inv == "GaussEnoughPoints":
        out = ["%s%r" % (f, k) for (f, k), r in rules.items() if f in ("gsqrtinv", "gx") and len(r["nodes"]) < k[0]]
    return sorted(set(out))
