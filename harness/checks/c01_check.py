"""C01: Galerkin entries equal the 4-fold heat-kernel integral (both evaluation paths).

Panels.tla enumerates every ordered pair of dyadic elements per curve shape and checks the
discrete skeleton (recursion terminates, no assertion reachable, terminal panels tile, every
singular point lies where the chosen rule is graded, closed-form dispatcher exhaustive).  A
class-stratified sample (quick) / all pairs up to a cap per class (thorough) is concretised as
real elements obtained by real bisection, evaluated by `bilform` with and without the
straight-panel switch, compared with the independent reference integrator, quantised and judged
by TLC (TracePanels) together with the recorded panel decomposition (diagnostic) and a
class-coverage postcondition.
"""
import contextlib
import io
import math
import random

import numpy as np

from .. import panels_lib as pl
from ..common import Ctx, setup_path
from ..judge import dev
from ..oracles import heat_ref as hr

TOL = 1e-7


def run(prop, tier, seed):
    setup_path()
    ctx = Ctx("C01", tier, seed)
    rng = random.Random(seed + 1)
    quick = tier == "quick"
    plan = [("UnitSquare", 2, 2, 2), ("PiSquare", 1, 2, 2), ("LShape", 1, 1, 2), ("Circle", 4, 2, 2), ("UnitInterval", 3, 2, 2)]
    if not quick:
        plan = [("UnitSquare", 3, 2, 2), ("PiSquare", 2, 2, 2), ("LShape", 2, 2, 2), ("Circle", 5, 2, 2), ("UnitInterval", 4, 2, 2)]
    # the same abstract pairs on a strongly time-graded scale (h_t down to 1/1024; only small elements keep aspect <= 32)
    plan += [("UnitSquare", 3, 1, 1, 1.0 / 256), ("Circle", 5, 1, 1, 1.0 / 128)]
    per_class = 2 if quick else 12
    stats = []
    total = 0
    classes = set()
    worst = {}
    samples = []
    for name, maxl, tlevels, th, *tu in plan:
        res, pairs = pl.model_pairs(name, maxl, tlevels, th)
        st = {"curve": name, "MaxL": maxl, "TLevels": tlevels, "TH": th, "tlc": res.stats(), "pairs_in_model": len(pairs)}
        if res.machinery_error:
            ctx.machinery_error("Panels %s: %s" % (name, res.machinery_error))
            stats.append(st)
            continue
        if not res.ok:
            ctx.violation("model:Panels:%s:%s" % (name, res.violated), "Panels.tla violates %s for %s" % (res.violated, name),
                          {"curve": name, "tlc_output_tail": res.output[-2500:]})
            stats.append(st)
            continue
        sh = pl.Shape(name, maxl, tlevels, *tu)
        st["time_unit"] = sh.tunit
        # population: causal pairs with admissible aspect; stratify by class
        by = {}
        dropped = outside = 0
        for te, tr in pairs:
            if te[1] <= tr[0]:
                continue
            if sh.aspect(te) > 32 or sh.aspect(tr) > 32:
                dropped += 1
                continue
            if not sh.admissible(te, tr):
                outside += 1     # not two leaves (or a leaf and a child / quarter) of one 1-irregular mesh: outside the quantifier
                continue
            by.setdefault((sh.space_rel(te, tr), sh.allen(te, tr)), []).append((te, tr))
        sel = []
        for cls in sorted(by):
            lst = by[cls]
            rng.shuffle(lst)
            sel += [(cls, te, tr) for te, tr in lst[:per_class]]
        st.update({"classes": len(by), "selected": len(sel), "dropped_aspect": dropped, "pairs_outside_quantifier": outside})
        fac = pl.Factory(sh, th)
        recs = []
        jobs = []
        for cls, te, tr in sel:
            jobs += [(name, sh.real(te), sh.real(tr)), (name, sh.real(te), sh.real(te)), (name, sh.real(tr), sh.real(tr))]
        refs = pl.ref_entries(jobs)
        required = set()
        for cls, te, tr in sel:
            try:
                Ete, Etr = fac.get(te), fac.get(tr)
            except Exception as ex:
                ctx.machinery_error("cannot concretise %r / %r on %s: %r" % (te, tr, name, ex))
                continue
            r = refs[(name, sh.real(te), sh.real(tr))]
            D = math.sqrt(refs[(name, sh.real(te), sh.real(te))] * refs[(name, sh.real(tr), sh.real(tr))])
            chans = [("quad", fac.SL)]
            if Ete.gamma_space is Etr.gamma_space:
                chans.append(("exact", fac.SLx))
            for chan, SL in chans:
                rec = {"chan": chan, "te": list(te), "tr": list(tr), "cls": list(cls)}
                try:
                    if chan == "quad":
                        with pl.PanelRecorder(SL, sh) as pr:
                            v = SL.bilform(Etr, Ete)
                        pan = pr.panels()
                        rec["decomp_skip"] = pan is None
                        rec["decomp"] = pan or []
                    else:
                        v = SL.bilform(Etr, Ete)
                    rec["dev"] = dev(v, r, TOL * D)
                    rec["value"] = repr(float(v))
                    rec["ref"] = repr(float(r))
                except AssertionError as ex:
                    rec["ok"] = False
                    rec["exc"] = "AssertionError in bilform"
                recs.append(rec)
                required.add((chan, cls[0], cls[1]))
                w = worst.setdefault((name, chan), 0)
                worst[(name, chan)] = max(w, rec.get("dev", 10 ** 9))
        bad, missing, jres = pl.judge(name, maxl, tlevels, th, recs, required)
        st["judged"] = len(recs)
        st["judge_tlc"] = jres.stats()
        total += len(recs)
        classes |= {(name,) + r for r in required}
        if jres.machinery_error:
            ctx.machinery_error("judge %s: %s" % (name, jres.machinery_error))
        else:
            for i, clause in bad:
                r = recs[i]
                if clause.startswith("d:"):
                    ctx.spec_drift("%s %s: %s for te=%r tr=%r (recorded %r)" % (name, r["chan"], clause, r["te"], r["tr"], r.get("decomp")))
                    continue
                key = "%s:%s:%s:%s" % (clause, name, r["chan"], r["cls"][0] if not (name == "Circle" and r["chan"] == "exact") else "any")
                ctx.violation(key, "%s on %s (%s path), class %r: test %r trial %r computed %s reference %s dev=%s millionths of 1e-7*sqrt(D D)"
                              % (clause, name, r["chan"], r["cls"], r["te"], r["tr"], r.get("value"), r.get("ref"), r.get("dev")),
                              {"curve": name, "MaxL": maxl, "TLevels": tlevels, "record": {k: v for k, v in r.items() if k != "decomp"}})
            if missing:
                ctx.machinery_error("classes never exercised on %s: %r" % (name, missing[:5]))
        if recs and len(samples) < 3:
            samples.append({k: v for k, v in recs[len(recs) // 2].items() if k != "decomp"})
        stats.append(st)
        ctx.log("curve %s" % st)
    # binding self-test: a corrupted deviation and a corrupted panel decomposition must be rejected
    st_self = {}
    if recs:
        import copy
        name, maxl, tlevels, th = plan[-1][:4]
        a = copy.deepcopy(recs[:6])
        a[1]["dev"] = 5_000_000
        k = next((i for i, r in enumerate(a) if r.get("decomp")), None)
        if k is not None:
            a[k]["decomp"] = a[k]["decomp"][:-1] + [a[k]["decomp"][-1][:4] + ["duffy_my" if a[k]["decomp"][-1][4] != "duffy_my" else "duffy"]]
        b2, m2, _ = pl.judge(name, maxl, tlevels, th, a, set())
        st_self["corrupted_dev_rejected"] = bool(b2) and "tolerance" in [c for _, c in b2]
        st_self["corrupted_decomposition_rejected"] = k is None or (bool(b2) and "d:panel-decomposition" in [c for _, c in b2])
        b3, m3, _ = pl.judge(name, maxl, tlevels, th, recs[:6], {("quad", "no-such-class", "equals")})
        st_self["missing_class_reported"] = bool(m3)
        if not all(st_self.values()):
            ctx.machinery_error("binding self-test failed: %r" % st_self)
    # oracle self-validation: published constants and a second parameter set of the integrator
    c = hr.RefCurve("UnitSquare")
    pub = [((0, 1, 0, 1), (0, 1, 0, 1), 0.23680355333817647868), ((0, 1, 0, 1), (0, 1, 1, 2), 0.0838829410097953185010223929460),
           ((0, 1, 0, 1), (0, 1, 2, 3), 0.036534485699376823056)]
    oracle = {"published_constants_max_rel_err": max(abs(hr.entry(c, a, b) - v) / v for a, b, v in pub)}
    if not quick:
        oracle["fine_vs_default_max_metric"] = max(abs(hr.entry(c, a, b, hr.FINE) - hr.entry(c, a, b)) / hr.entry(c, a, a) for a, b, v in pub)
    if oracle["published_constants_max_rel_err"] > 1e-9:
        ctx.machinery_error("reference integrator self-check failed: %r" % oracle)
    ctx.cov = {
        "evaluations": total, "distinct_nontrivial": len(classes),
        "rule": "pairs enumerated by Panels.tla per curve shape; stratified by (space relation, Allen relation) class, %d members per class, "
                "aspect h_x^2/h_t <= 32; both paths where the two elements lie on one piece; distinct_nontrivial = (curve, path, class) cells exercised" % per_class,
        "samples": samples, "per_curve": stats, "worst_dev_millionths": {"%s/%s" % k: v for k, v in worst.items()},
        "oracle_selfcheck": oracle, "binding_selftest": st_self,
    }
    ctx.assumptions = [
        "reference: analytic double time integral + graded Gauss-Legendre in space (harness/oracles/heat_ref.py), accurate to ~1e-11 in the property's metric",
        "elements are concretised by real bisection of a fresh MeshParametrized; nested pairs use elements of two different meshes of the same curve",
    ]
    return ctx.finish()
