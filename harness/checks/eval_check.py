"""C07: pointwise evaluation of the single-layer operator on the boundary.

For trial elements of every curve, times in the three time classes and points in the four position
classes (inside, end point, thin near-singular layer, at least 1% outside; across corners and the
seam) `evaluate` (and `evaluate_vector`), `evaluate_exact` on straight sides, are compared with an
independent one-dimensional reference; TLC (TraceEval) derives position class, tolerance and
branch from the integer coordinates and demands coverage of every (position, time, branch) cell.
"""
import contextlib
import io
import json
import math
import os
import random
import re
import shutil
import tempfile

import numpy as np

from .. import panels_lib as pl
from .. import tlc
from ..common import Ctx, setup_path
from ..oracles import heat_ref as hr

K = 100000
CFG_T = """CONSTANTS Pieces <- PiecesDef Closed = %(Closed)s MaxL = %(MaxL)d TLevels = %(TLevels)d TH = %(TH)d MinPerSlab = 3
SPECIFICATION TSpec
INVARIANT Report
POSTCONDITION Done
CHECK_DEADLOCK FALSE
"""


def judge(name, maxl, tlevels, th, recs):
    pieces, closed, unit, tunit = pl.CURVES[name]
    work = tempfile.mkdtemp(prefix="ev.", dir=tlc._scratch())
    path = os.path.join(work, "trace.json")
    json.dump([{"k": "header"}] + [dict(r, k="rec") for r in recs], open(path, "w"))
    res = tlc.run_tlc("MCTraceEval", CFG_T % {"Closed": "TRUE" if closed else "FALSE", "MaxL": maxl, "TLevels": tlevels, "TH": th}, workers=1, timeout=1800,
                      env={"TRACE_FILE": path}, aux_files={"MCTraceEval.tla": pl.MC % ("MCTraceEval", "TraceEval", pl.pieces_tla(name))})
    shutil.rmtree(work, ignore_errors=True)
    mm = re.search(r'<<\s*"BAD",\s*(\{.*?\}),\s*"MISSING",\s*(\{.*?\})\s*>>', res.output, flags=re.S)
    if not mm:
        return None, None, res
    bad = sorted((t[0] - 2, t[1]) for t in tlc.parse_value(mm.group(1)))
    return bad, sorted(tuple(t) for t in tlc.parse_value(mm.group(2))), res


def pos_class(sh, tr, xk):
    xa, xb, LK = tr[2] * K, tr[3] * K, sh.L * K
    h = xb - xa

    def dist(e):
        d = abs(xk - e)
        return min(d, LK - d) if sh.closed else d
    if xa <= xk <= xb:
        return "end-point" if xk in (xa, xb) else "inside"
    if sh.closed and ((xk == 0 and xb == LK) or (xk == LK and xa == 0)):
        return "end-point"
    return "far" if 100 * min(dist(xa), dist(xb)) >= h else "near"


def run(prop, tier, seed):
    setup_path()
    ctx = Ctx("C07", tier, seed)
    rng = random.Random(seed + 7)
    quick = tier == "quick"
    plan = [("UnitSquare", 2, 2, 2), ("PiSquare", 1, 2, 2), ("LShape", 1, 2, 2), ("Circle", 4, 2, 2), ("UnitInterval", 2, 2, 2),
            ("ThinRect", 0, 2, 2),
            # deeply refined trial elements (h_x = 2^-8 ... 2^-12 of a side): end points where the distance to the nearest
            # quadrature node is 1e-4 h_x and any loss of relative accuracy in the squared distance shows
            ("UnitSquare", 12, 2, 2), ("Circle", 11, 2, 2)]
    nel = 10 if quick else 200
    stats, total, cells, samples = [], 0, set(), []
    worst = {}
    for name, maxl, tlevels, th in plan:
        sh = pl.Shape(name, maxl, tlevels)
        fac = pl.Factory(sh, th)
        rc = hr.RefCurve(name)
        # trial elements: from the dyadic family, aspect <= 4 so that the parabolic ratio restriction leaves room
        elems = []
        for i in range(len(sh.pieces)):
            for u in range(sh.pieces[i]):
                for l in (range(maxl + 1) if maxl <= 6 else range(8, maxl + 1)):
                    g = sh.U // 2 ** l
                    for k in (range(2 ** l) if maxl <= 6 else sorted({0, 1, 2 ** l - 1, 2 ** (l - 1), rng.randrange(2 ** l), rng.randrange(2 ** l)})):
                        x0 = sh.starts[i] + u * sh.U + k * g
                        for lt in range(tlevels + 1):
                            gt = sh.UT // 2 ** lt
                            for kt in range(th * 2 ** lt):
                                e = (kt * gt, (kt + 1) * gt, x0, x0 + g)
                                if sh.closed and (e[3] - e[2]) * 3 > sh.L:
                                    continue
                                if sh.aspect(e) <= 4:
                                    elems.append(e)
        rng.shuffle(elems)
        # make sure the first and last element of the parametrisation are present (seam, x = 0 branch)
        firsts = [e for e in elems if e[2] == 0][:2] + [e for e in elems if e[3] == sh.L][:2]
        sel = firsts + elems[:nel]
        recs = []
        for tr in sel:
            E = fac.get(tr)
            t0, t1, xa, xb = tr
            hx, ht = xb - xa, t1 - t0
            treal0, treal1, xra, xrb = sh.real(tr)
            hxr, htr = xrb - xra, treal1 - treal0
            # times (units 1/(UT*K)): acausal, within (incl. t = t1), after; parabolic ratio h_x^2/tau <= 16
            tmin = hxr * hxr / 16.0
            times = [t0 * K, t0 * K - K // 4 if t0 > 0 else t0 * K]
            for frac in (0.3, 0.75, 1.0):
                if frac * htr >= tmin:
                    times.append(t0 * K + int(frac * ht * K))
            dt_after = max(tmin / sh.tunit * sh.UT, 0.05 * ht)
            if (t1 + dt_after) <= th * sh.UT:
                times.append(int(round((t1 + dt_after * 1.01) * K)))
                times.append(min(th * sh.UT * K, int((t1 + max(dt_after * 1.01, 0.7 * ht)) * K)))
            # points (units 1/(U*K))
            LK = sh.L * K
            pts = [xa * K, xb * K, xa * K + hx * K // 2, xa * K + int(0.013 * hx * K), xb * K - int(0.007 * hx * K), xa * K + int(rng.uniform(0.05, 0.95) * hx * K)]
            for f in (1e-4, 1e-3, 5e-3, 0.01, 0.03, 0.3, 1.0, 2.7):
                pts += [xb * K + int(f * hx * K), xa * K - int(f * hx * K)]
            pts += [0, LK] + [int(rng.uniform(0, 1) * LK) for _ in range(8)]       # points far along the curve (possibly near in the plane)
            if not rc.circle:
                # the points of the other pieces nearest in the plane to the element's mid point (orthogonal projections)
                pe = rc.piece_of(xra, xrb)
                mid = rc.point(np.array([0.5 * (xra + xrb)]), pe)[:, 0]
                for j in range(rc.npieces):
                    if j == pe:
                        continue
                    ln = rc.starts[j + 1] - rc.starts[j]
                    sj = float(np.clip(np.dot(mid - rc.verts[j], rc.dirs[j]), 0.0, ln))
                    pts.append(int(round((rc.starts[j] + sj) / sh.unit * sh.U * K)))
            pp = []
            for x in pts:
                if sh.closed:
                    x = x % LK if x not in (LK,) else LK
                if 0 <= x <= LK:
                    pp.append(x)
            for x in sorted(set(pp)):
                xr = x / K / sh.U * sh.unit
                xr = min(max(xr, 0.0), fac.gamma.gamma_length)
                # documented precondition of the in-element split: more than 1e-5 from both end points
                if xra < xr < xrb and min(xr - xra, xrb - xr) <= 1.5e-5:
                    continue
                X = np.asarray(fac.gamma.eval(np.array([xr]))).reshape(2, 1)
                # piece of the point for the reference: the piece gamma.eval used
                xp = None
                if not rc.circle:
                    cands = [i for i in range(rc.npieces) if rc.starts[i] - 1e-13 <= xr <= rc.starts[i + 1] + 1e-13]
                    xp = cands[0]
                    if len(cands) > 1:
                        # at a break point np.select takes the first matching piece
                        xp = cands[0]
                for t in sorted(set(times)):
                    if t < 0 or t > th * sh.UT * K:
                        continue
                    tr_ = t / K / sh.UT * sh.tunit
                    taus = [v for v in (tr_ - treal0, tr_ - treal1) if v > 0]
                    if taus and hxr * hxr / min(taus) > 16.0 * (1 + 1e-9):
                        continue
                    cls = pos_class(sh, tr, x)
                    chans = [("evaluate", lambda: fac.SL.evaluate(E, float(tr_), float(xr), X))]
                    if name != "Circle" and xp is not None and rc.piece_of(xra, xrb) == xp:
                        chans.append(("evaluate_exact", lambda: fac.SL.evaluate_exact(E, float(tr_), float(xr))))
                    for chan, f in chans:
                        try:
                            v = float(f())
                        except AssertionError as ex:
                            ctx.violation("assertion:%s:%s" % (chan, cls), "%s asserts for trial %r t=%r x=%r on %s" % (chan, tr, tr_, xr, name),
                                          {"curve": name, "trial": list(tr), "t": tr_, "x": xr})
                            continue
                        if tr_ <= treal0:
                            recs.append({"chan": chan, "tr": list(tr), "x": int(x), "t": int(t), "cls": cls, "zero": v == 0.0, "err11": 0})
                            continue
                        ref = hr.evaluate(rc, (treal0, treal1, xra, xrb), tr_, xr, xpiece=xp if xp is not None else 0)
                        rel = abs(v - ref) / max(abs(ref), 1e-9)
                        e11 = int(min(2 * 10 ** 9, math.ceil(rel * 1e11)))
                        recs.append({"chan": chan, "tr": list(tr), "x": int(x), "t": int(t), "cls": cls, "zero": v == 0.0, "err11": e11,
                                     "value": repr(v), "ref": repr(ref)})
                        worst[(chan, cls)] = max(worst.get((chan, cls), 0), e11)
        # evaluate_vector == evaluate per element (one spot per curve)
        with contextlib.redirect_stdout(io.StringIO()):
            vec = fac.SL.evaluate_vector(0.9 * sh.tunit, 0.37 * fac.gamma.gamma_length)
        els = list(fac.mesh.leaf_elements)
        Xv = fac.gamma.eval(0.37 * fac.gamma.gamma_length) if len(fac.gamma.pw_gamma) == 1 else fac.gamma.eval(np.array([0.37 * fac.gamma.gamma_length]))
        one = [fac.SL.evaluate(e, 0.9 * sh.tunit, 0.37 * fac.gamma.gamma_length, np.asarray(Xv).reshape(2, 1)) for e in els]
        if not np.array_equal(np.asarray(vec), np.asarray(one, dtype=float)):
            ctx.violation("evaluate_vector:%s" % name, "evaluate_vector differs from per-element evaluate on %s" % name, {"curve": name})
        bad, missing, jres = judge(name, maxl, tlevels, th, recs)
        st = {"curve": name, "trial_elements": len(sel), "records": len(recs), "judge_tlc": jres.stats()}
        if bad is None:
            ctx.machinery_error("TraceEval %s: %s" % (name, jres.machinery_error or jres.output[-300:]))
        else:
            for i, clause in bad:
                r = recs[i]
                if clause.startswith("d:"):
                    ctx.spec_drift("%s: %s %r" % (name, clause, r))
                    continue
                ctx.violation("%s:%s:%s" % (clause, r["chan"], name), "%s on %s: %s relative error %.3g (trial %r, x=%d/%d, t=%d) computed %s reference %s"
                              % (clause, name, r["chan"], r["err11"] * 1e-11, r["tr"], r["x"], K, r["t"], r.get("value"), r.get("ref")), dict(r, curve=name))
            if missing:
                st["cells_not_reached"] = [list(m) for m in missing]
                # cells that need the x = 0 start element or the seam are structurally absent on some curves; report, do not fail
                hard = [m for m in missing if m[1] in ("inside", "near", "far") and m[2] != "acausal"]
                if hard:
                    ctx.machinery_error("cells never exercised on %s: %r" % (name, hard[:5]))
        total += len(recs)
        cells |= {(name, r["chan"], r["cls"]) for r in recs}
        if recs and len(samples) < 3:
            samples.append(recs[len(recs) // 2])
        stats.append(st)
        ctx.log("curve %s" % st)
    # the integral of the evaluation over the trial element itself reproduces the diagonal entry
    ident = []
    for name in ("UnitSquare", "Circle"):
        sh = pl.Shape(name, 2 if name == "UnitSquare" else 4, 1)
        fac = pl.Factory(sh, 1)
        e = (0, sh.UT, 0, sh.U // (1 if name == "UnitSquare" else 4))
        E = fac.get(e)
        R = hr.Rules(n=10, q=0.3, levels=8)
        t0, t1, xa, xb = sh.real(e)
        xs, wx = R.both(xa, xb)
        ts, wt = R.both(t0, t1)
        acc = 0.0
        for x, w in zip(xs, wx):
            if min(x - xa, xb - x) <= 1.5e-5:
                continue
            X = np.asarray(fac.gamma.eval(np.array([x]) if len(fac.gamma.pw_gamma) > 1 else x)).reshape(2, 1)
            acc += w * sum(wq * fac.SL.evaluate(E, float(t), float(x), X) for t, wq in zip(ts, wt) if t > t0)
        entry = fac.SL.bilform(E, E)
        ident.append({"curve": name, "integral_of_evaluate": acc, "bilform": float(entry), "rel": abs(acc - entry) / entry})
        if abs(acc - entry) / entry > 2e-4:
            ctx.violation("integral-identity:%s" % name, "integral of evaluate over the element (%g) differs from the Galerkin entry (%g)" % (acc, entry), ident[-1])
    ctx.cov = {"evaluations": total, "distinct_nontrivial": len(cells),
               "rule": "trial elements of the dyadic family (aspect <= 4) x times {acausal, within incl. end, after} with h_x^2/tau <= 16 x points {end points, inside, 1e-4..0.5% layer, 1%..270% outside, 0, L, random}; "
                       "distinct_nontrivial = (curve, channel, position class) cells",
               "samples": samples, "per_curve": stats, "worst_err_1e-11": {"%s/%s" % k: v for k, v in worst.items()}, "integral_identity": ident}
    ctx.assumptions = ["reference: analytic time integral (E1) + graded Gauss-Legendre towards the foot point (harness/oracles/heat_ref.py)",
                       "interior points are kept more than 1.5e-5 from the end points (documented precondition of the interval rule)",
                       "integral identity checked for test = trial (points in the closed element, where evaluate is accurate to 1e-8) with a graded tensor rule, tolerance 2e-4 "
                       "(the graded rule skips the 1.5e-5 end layers)"]
    return ctx.finish()
