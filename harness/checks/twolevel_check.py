"""C20: h-h/2 and hierarchical estimators equal their definitions.

  1. Estimators.tla: quarter order == real `refine` == np.repeat order; sign patterns are what
     their names say (model-checked on STMesh states).
  2. generic-atom conformance: bilform_matrix, load vectors and Phi replaced by pseudo-random atoms
     keyed by the *geometry* of the elements; the real `estimate` methods must reproduce the
     model's formula evaluated on the same atoms (isolates child order, sign patterns, row/column
     convention, prolongation from quadrature error).
  3. numerical equality with the definition: a replayed copy of the mesh is refined by real
     uniform_refine, assembled pair by pair, solved; energy norm / indicators compared (1e-7);
     h-h/2 vanishes when the extension solves the fine problem; non-negativity; pool == serial;
     Prolongate between nested meshes.  Judged by TLC (TraceEstim).
"""
import contextlib
import hashlib
import io
import json
import math
import os
import random
import re
import shutil
import tempfile

import numpy as np

from .. import meshlib as ml
from .. import tlc
from ..common import Ctx, setup_path
from ..judge import dev
from .c13_check import ParamLayout
from .sobolev_check import refined_mesh

CFG_M = """CONSTANTS Nt = %(Nt)d Nx = %(Nx)d Glue = TRUE MaxL = %(MaxL)d Budget = %(Budget)d
  Ops = {"bisect"} SortSpace = TRUE GradeSkip = TRUE P = 4 CTn = 4 CSn = 4
SPECIFICATION Spec
VIEW View
CHECK_DEADLOCK FALSE
INVARIANT QuartersAreRefine
INVARIANT SignsConsistent
"""
CFG_T = """CONSTANTS Nt = 1 Nx = 1 Glue = TRUE MaxL = 1 Budget = 0
  Ops = {} SortSpace = TRUE GradeSkip = TRUE P = 4 CTn = 4 CSn = 4
SPECIFICATION TSpec
INVARIANT Report
POSTCONDITION Done
CHECK_DEADLOCK FALSE
"""
SIGNS = [[1, 1, -1, -1], [1, -1, 1, -1], [1, -1, -1, 1]]


def raw(e):
    return (float(e.time_interval[0]), float(e.time_interval[1]), float(e.space_interval[0]), float(e.space_interval[1]))


def rkey(t):
    return tuple(round(v, 9) for v in t)


def gkey(e):
    return rkey(raw(e))


def atom(tag, *keys):
    h = hashlib.sha1(repr((tag,) + keys).encode()).digest()
    return int.from_bytes(h[:6], "big") / 2 ** 48      # in [0, 1)


class AtomSL:
    """stands in for SingleLayerOperator: matrix entries are atoms keyed by geometry; rows test, columns trial"""

    def bilform_matrix(self, elems_test=None, elems_trial=None, use_mp=False):
        if elems_trial is None:
            elems_trial = elems_test
        M = np.zeros((len(elems_test), len(elems_trial)))
        for i, te in enumerate(elems_test):
            for j, tr in enumerate(elems_trial):
                M[i, j] = atom("V", gkey(te), gkey(tr)) + (5.0 if gkey(te) == gkey(tr) else 0.0)
        return M


class AtomM0:
    def linform_vector(self, elems=None, use_mp=False):
        return np.array([atom("M0", gkey(e)) for e in elems])


def atom_g(elems):
    return np.array([atom("g", gkey(e)) for e in elems])


def quarters_geo(k):
    t0, t1, x0, x1 = k
    tm, xm = (t0 + t1) / 2, (x0 + x1) / 2
    return [(t0, tm, x0, xm), (t0, tm, xm, x1), (tm, t1, x0, xm), (tm, t1, xm, x1)]


def model_hier(raws, Phi, with_m0):
    """the definition evaluated on the atoms, child order and signs of Estimators.tla"""
    out = []
    keys = [rkey(r) for r in raws]
    for k in raws:
        q = [rkey(c) for c in quarters_geo(k)]
        S = np.array([[atom("V", a, b) + (5.0 if a == b else 0.0) for b in q] for a in q])
        est = []
        for s in SIGNS:
            num = 0.0
            for c, sc in zip(q, s):
                rhs_c = atom("g", c) - (atom("M0", c) if with_m0 else 0.0)
                vphi = sum((atom("V", c, kj) + (5.0 if c == kj else 0.0)) * Phi[j] for j, kj in enumerate(keys))
                num += sc * (rhs_c - vphi)
            den = float(np.array(s) @ S @ np.array(s))
            est.append(abs(num) ** 2 / den)
        out.append((est[0] + 0.5 * est[2], est[1] + 0.5 * est[2]))
    return np.array(out)


def model_hh2(raws, Phi, with_m0):
    fine = [rkey(c) for k in raws for c in quarters_geo(k)]
    parent = [i for i, k in enumerate(raws) for _ in range(4)]
    A = np.array([[atom("V", a, b) + (5.0 if a == b else 0.0) for b in fine] for a in fine])
    rhs = np.array([atom("g", c) - (atom("M0", c) if with_m0 else 0.0) for c in fine])
    pf = np.linalg.solve(A, rhs)
    diff = pf - np.array([Phi[p] for p in parent])
    return math.sqrt(diff @ A @ diff)


def run(prop, tier, seed):
    setup_path()
    ctx = Ctx("C20", tier, seed)
    rng = random.Random(seed + 20)
    quick = tier == "quick"
    from src.h_h2_error_estimator import HH2ErrorEstimator
    from src.hierarchical_error_estimator import DummyElement, HierarchicalErrorEstimator
    from src.mesh import Prolongate
    from src.single_layer import SingleLayerOperator
    models = []
    for (Nt, Nx, b) in ([(1, 3, 3), (2, 2, 2)] if quick else [(1, 3, 5), (2, 3, 3), (1, 4, 4)]):
        res = tlc.run_tlc("Estimators", CFG_M % {"Nt": Nt, "Nx": Nx, "MaxL": b + 2, "Budget": b}, timeout=3000)
        models.append({"layout": "%dx%dg" % (Nt, Nx), "budget": b, "tlc": res.stats()})
        if res.machinery_error:
            ctx.machinery_error("Estimators.tla: " + res.machinery_error)
        elif not res.ok:
            ctx.violation("model:Estimators:%s" % res.violated, "Estimators.tla violates %s" % res.violated, {"tlc_output_tail": res.output[-2000:]})
    recs = []

    def num(cls, value=None, ref=None, tol=None, ok=None, **extra):
        r = {"k": "num", "cls": cls}
        if ok is not None:
            r["ok"] = bool(ok)
        else:
            r["dev"] = dev(value, ref, tol)
            r["value"], r["ref"] = repr(float(value)), repr(float(ref))
        r.update(extra)
        recs.append(r)
    stats = []
    plan = [(name, tunit, nref) for nref in ((4,) if quick else (3, 6, 10, 14, 18, 24))
            for name, tunit in (("UnitSquare", 1.0), ("Circle", 1.0), ("LShape", 1.0), ("PiSquare", 4.0))]
    for name, tunit, nref in plan:
        lay = ParamLayout(name, 1, 20, tunit)
        mesh, path_ops = refined_mesh_with_path(lay, rng, nref)
        elems = list(mesh.leaf_elements)
        keys = [gkey(e) for e in elems]
        N = len(elems)
        Phi = np.array([rng.uniform(-1, 1) for _ in range(N)])
        # binding of child order / signs: abstract integer coordinates for the TLC judge (scaled by 2 so that midpoints are integers)
        for e in elems[:6]:
            k = ml.leaf_tuple(e, lay)
            ch = DummyElement.uniform_refinement([e])[0]
            sc = lambda c: [2 * ml.leaf_tuple_like(c, lay)[i] for i in range(4)] if False else None
            q_int = []
            for c in ch:
                t0, t1 = c.time_interval
                x0, x1 = c.space_interval
                # children in units of half the parent's grid spacing
                et0, et1, ex0, ex1 = k[0] * 2, k[1] * 2, k[2] * 2, k[3] * 2
                ft = lambda v: et0 + round((float(v) - float(e.time_interval[0])) / float(e.h_t) * (et1 - et0))
                fx = lambda v: ex0 + round((float(v) - float(e.space_interval[0])) / float(e.h_x) * (ex1 - ex0))
                q_int.append([ft(t0), ft(t1), fx(x0), fx(x1)])
            recs.append({"k": "elem", "e": [k[0] * 2, k[1] * 2, k[2] * 2, k[3] * 2], "quarters": q_int, "signs": SIGNS})
        # 2. generic atoms
        for with_m0 in (False, True):
            # the same estimator objects are used for two densities and for a sub-list: no state may survive a call
            H_ = HierarchicalErrorEstimator(SL=AtomSL(), M0=AtomM0() if with_m0 else None, g=atom_g)
            H2_ = HH2ErrorEstimator(SL=AtomSL(), M0=AtomM0() if with_m0 else None, g=atom_g, use_mp=False)
            Phi_b = np.array([rng.uniform(-2, 2) for _ in range(N)])
            sub = list(range(0, N, 2))
            for els_, raws_, Ph_ in ((elems, [raw(e) for e in elems], Phi), ([elems[j] for j in sub], [raw(elems[j]) for j in sub], Phi_b[sub]),
                                     (elems, [raw(e) for e in elems], Phi_b)):
                with contextlib.redirect_stdout(io.StringIO()):
                    hier = H_.estimate(els_, Ph_)
                    hh2 = H2_.estimate(els_, Ph_)
                mh = model_hier(raws_, Ph_, with_m0)
                worst = max(dev(hier[i, c], mh[i, c], 1e-11 * abs(mh[i, c])) for i in range(len(els_)) for c in (0, 1))
                recs.append({"k": "num", "cls": "hier-atoms", "dev": worst, "curve": name, "with_m0": with_m0, "n": len(els_)})
                num("hh2-atoms", hh2, model_hh2(raws_, Ph_, with_m0), 1e-10 * abs(hh2), curve=name, with_m0=with_m0, n=len(els_))
        # 3. numerical equality with the definition (Dirichlet data g = 1: g-linform = h_t h_x)
        with contextlib.redirect_stdout(io.StringIO()):
            SL = SingleLayerOperator(mesh)
            glin = lambda es: np.array([e.h_t * e.h_x for e in es])
            A = SL.bilform_matrix(elems, elems)
            Phi_g = np.linalg.solve(A, glin(elems))
            est_h = HierarchicalErrorEstimator(SL=SL, g=glin).estimate(elems, Phi_g)
            est_2 = HH2ErrorEstimator(SL=SL, g=glin, use_mp=False).estimate(elems, Phi_g)
            est_2p = HH2ErrorEstimator(SL=SL, g=glin, use_mp=True).estimate(elems, Phi_g)
            # independent: replayed copy refined by real bisection
            m2 = lay.new_mesh()
            path = path_ops
            for op in path:
                ml.apply_op(m2, lay, op)
            coarse2 = list(m2.leaf_elements)
            ck = [gkey(e) for e in coarse2]
            perm = [ck.index(k) for k in keys]
            m2.uniform_refine()
            fine = list(m2.leaf_elements)
            SL2 = SingleLayerOperator(m2)
            Af = np.array([[SL2.bilform(tr, te) for tr in fine] for te in fine])
            rf = glin(fine)
            pf = np.linalg.solve(Af, rf)

            def anc(e):
                p = e
                while gkey(p) not in keys:
                    p = p.parent
                return keys.index(gkey(p))
            par = [anc(e) for e in fine]
            diff = pf - np.array([Phi_g[p] for p in par])
            ref_hh2 = math.sqrt(diff @ Af @ diff)
        num("hh2-definition", est_2, ref_hh2, 1e-7 * abs(ref_hh2), curve=name)
        num("hh2-pool", ok=float(est_2) == float(est_2p), curve=name)
        # hierarchical from the definition on the real children
        worst = 0
        for i, k in enumerate(keys):
            ch = [f for f, p in zip(fine, par) if p == i]
            t0, t1, x0, x1 = k
            tm, xm = (t0 + t1) / 2, (x0 + x1) / 2
            sgn = lambda f: (1 if f.time_interval[1] <= tm + 1e-7 else -1, 1 if f.space_interval[1] <= xm + 1e-7 else -1)
            S = np.array([[SL2.bilform(b, a) for b in ch] for a in ch])
            est = []
            for pat in ("t", "x", "tx"):
                s = np.array([sgn(f)[0] if pat == "t" else sgn(f)[1] if pat == "x" else sgn(f)[0] * sgn(f)[1] for f in ch], float)
                data = sum(sc * (f.h_t * f.h_x - sum(SL2.bilform(tr, f) * Phi_g[j] for j, tr in enumerate(elems))) for sc, f in zip(s, ch))
                est.append(abs(data) ** 2 / float(s @ S @ s))
            for c, refv in ((0, est[0] + 0.5 * est[2]), (1, est[1] + 0.5 * est[2])):
                worst = max(worst, dev(est_h[i, c], refv, 1e-7 * abs(refv) + 1e-18))
        recs.append({"k": "num", "cls": "hier-definition", "dev": worst, "curve": name})
        num("nonneg", ok=bool(np.all(est_h >= 0) and est_2 >= 0), curve=name)
        # vanishes when the extension already solves the finer problem
        with contextlib.redirect_stdout(io.StringIO()):
            el_f = [c for ch in DummyElement.uniform_refinement(elems) for c in ch]
            SL._init_elems(el_f)
            Aff = SL.bilform_matrix(el_f, el_f)
            rhs_star = Aff @ np.repeat(Phi, 4)
            van = HH2ErrorEstimator(SL=SL, g=lambda es: rhs_star, use_mp=False).estimate(elems, Phi)
        scale = math.sqrt(np.repeat(Phi, 4) @ Aff @ np.repeat(Phi, 4))
        num("hh2-vanishes", van, 0.0, 1e-10 * scale, curve=name)
        # the same with right-hand sides that equal the fine product only up to rounding (summed in another order), several
        # densities: the estimator must stay real, non-negative and of the size of rounding errors
        worst_v, real_ok = 0.0, True
        for rep_v in range(6):
            Ph_v = np.array([rng.uniform(-1, 1) for _ in range(N)])
            rep4 = np.repeat(Ph_v, 4)
            rhs_v = np.array([math.fsum(float(a) * float(b) for a, b in zip(Aff[i, ::-1], rep4[::-1])) for i in range(len(rep4))])
            with contextlib.redirect_stdout(io.StringIO()), np.errstate(all="ignore"):
                v_ = HH2ErrorEstimator(SL=SL, g=lambda es: rhs_v, use_mp=False).estimate(elems, Ph_v)
            sc_ = math.sqrt(rep4 @ Aff @ rep4)
            if not (np.isfinite(v_) and v_ >= 0):
                real_ok = False
            else:
                worst_v = max(worst_v, float(v_) / sc_)
        num("hh2-vanishes-real", ok=real_ok, curve=name)
        num("hh2-vanishes-rounded-rhs", worst_v, 0.0, 1e-7, curve=name)
        # Prolongate between nested meshes
        vec = np.array([rng.uniform(-1, 1) for _ in coarse2])
        pr = Prolongate(vec, coarse2, fine)
        okp = all(pr[j] == vec[[gkey(c) for c in coarse2].index(keys[par[j]])] for j in range(len(fine)))
        num("prolongate", ok=okp, curve=name)
        # lists of equal length in different orders / forms (the same leaves sorted otherwise, reversed, as tuples)
        okq = True
        for tgt in (list(reversed(coarse2)), sorted(coarse2, key=lambda e: (float(e.space_interval[0]), float(e.time_interval[0]))), tuple(coarse2[1:] + coarse2[:1])):
            for v_in in (vec, list(vec), np.array(vec)[::-1][::-1]):
                pr2 = Prolongate(v_in, coarse2, tgt)
                okq = okq and len(pr2) == len(tgt) and all(pr2[j] == vec[coarse2.index(t)] for j, t in enumerate(tgt))
                okq = okq and (pr2 is not v_in)
        num("prolongate-same-length-other-order", ok=okq, curve=name)
        stats.append({"curve": name, "elements": N})
    # a mesh refined eleven times towards one corner (h_t = h_x = 2^-11 there: <V psi, psi> of the smallest elements is about
    # 1e-11): the hierarchical indicators of the smallest and of the largest elements against the definition on real children
    from src.parametrization import UnitSquare as _US
    from src.mesh import MeshParametrized as _MP
    with contextlib.redirect_stdout(io.StringIO()):
        dm = _MP(_US())
        e = [x for x in dm.leaf_elements if float(x.space_interval[0]) == 0.0][0]
        for _ in range(11):
            ch4 = dm.refine(e)
            e = min(ch4, key=lambda c: (float(c.time_interval[0]), float(c.space_interval[0])))
        delems = list(dm.leaf_elements)
        dSL = SingleLayerOperator(dm)
        dPhi = np.array([rng.uniform(0.5, 1.5) for _ in delems])
        dglin = lambda es: np.array([x.h_t * x.h_x for x in es])
        dest = HierarchicalErrorEstimator(SL=dSL, g=dglin).estimate(delems, dPhi)
        order_sz = sorted(range(len(delems)), key=lambda i: float(delems[i].h_t * delems[i].h_x))
        worst_deep = 0
        for i in order_sz[:3] + order_sz[-1:]:
            E = delems[i]
            chd = DummyElement.uniform_refinement([E])[0]
            dSL._init_elems(chd)
            t0, t1 = map(float, E.time_interval)
            x0, x1 = map(float, E.space_interval)
            tm, xm = (t0 + t1) / 2, (x0 + x1) / 2
            sg = lambda f: (1 if float(f.time_interval[1]) <= tm + 1e-12 else -1, 1 if float(f.space_interval[1]) <= xm + 1e-12 else -1)
            S = np.array([[dSL.bilform(b, a) for b in chd] for a in chd])
            est = []
            for pat in ("t", "x", "tx"):
                sv = np.array([sg(f)[0] if pat == "t" else sg(f)[1] if pat == "x" else sg(f)[0] * sg(f)[1] for f in chd], float)
                data = sum(sc * (f.h_t * f.h_x - sum(dSL.bilform(tr, f) * dPhi[j] for j, tr in enumerate(delems))) for sc, f in zip(sv, chd))
                est.append(abs(data) ** 2 / float(sv @ S @ sv))
            for c, refv in ((0, est[0] + 0.5 * est[2]), (1, est[1] + 0.5 * est[2])):
                worst_deep = max(worst_deep, dev(dest[i, c], refv, 1e-6 * abs(refv) + 1e-30))
    recs.append({"k": "num", "cls": "hier-definition-deep-corner", "dev": worst_deep, "curve": "UnitSquare", "n": len(delems)})
    # with initial data (Singular problem on the unit square, u0 = 1)
    from src.initial_mesh import UnitSquareBoundaryRefined
    from src.initial_potential import InitialOperator
    lay = ParamLayout("UnitSquare", 1, 12, 1.0)
    mesh = lay.new_mesh()
    elems = list(mesh.leaf_elements)
    keys = [gkey(e) for e in elems]
    with contextlib.redirect_stdout(io.StringIO()):
        SL = SingleLayerOperator(mesh)
        M0 = InitialOperator(bdr_mesh=mesh, u0=lambda xy: 1 + 0 * xy[0], initial_mesh=UnitSquareBoundaryRefined)
        A = SL.bilform_matrix(elems, elems)
        Phi0 = np.linalg.solve(A, -M0.linform_vector(elems))
        eh = HierarchicalErrorEstimator(SL=SL, M0=M0).estimate(elems, Phi0)
        e2 = HH2ErrorEstimator(SL=SL, M0=M0, use_mp=False).estimate(elems, Phi0)
        m2 = lay.new_mesh()
        m2.uniform_refine()
        fine = list(m2.leaf_elements)
        SL2 = SingleLayerOperator(m2)
        M02 = InitialOperator(bdr_mesh=m2, u0=lambda xy: 1 + 0 * xy[0], initial_mesh=UnitSquareBoundaryRefined)
        Af = np.array([[SL2.bilform(tr, te) for tr in fine] for te in fine])
        rf = -np.array([M02.linform(f)[0] for f in fine])
        pf = np.linalg.solve(Af, rf)
        par = [keys.index(gkey(f.parent.parent)) for f in fine]     # uniform_refine: time then space
        diff = pf - np.array([Phi0[p] for p in par])
        ref2 = math.sqrt(diff @ Af @ diff)
    num("hh2-initial-data", e2, ref2, 1e-7 * abs(ref2), curve="UnitSquare")
    worst = 0
    for i, k in enumerate(keys):
        ch = [f for f, p in zip(fine, par) if p == i]
        idx = [fine.index(f) for f in ch]
        t0, t1, x0, x1 = k
        tm, xm = (t0 + t1) / 2, (x0 + x1) / 2
        S = Af[np.ix_(idx, idx)]
        est = []
        for pat in ("t", "x", "tx"):
            st_ = np.array([(1 if f.time_interval[1] <= tm + 1e-7 else -1) for f in ch], float)
            sx_ = np.array([(1 if f.space_interval[1] <= xm + 1e-7 else -1) for f in ch], float)
            s = st_ if pat == "t" else sx_ if pat == "x" else st_ * sx_
            data = sum(sc * (rf[fine.index(f)] - sum(SL2.bilform(tr, f) * Phi0[j] for j, tr in enumerate(elems))) for sc, f in zip(s, ch))
            est.append(abs(data) ** 2 / float(s @ S @ s))
        for c, refv in ((0, est[0] + 0.5 * est[2]), (1, est[1] + 0.5 * est[2])):
            worst = max(worst, dev(eh[i, c], refv, 1e-6 * abs(refv) + 1e-16))
    recs.append({"k": "num", "cls": "hier-initial-data", "dev": worst, "curve": "UnitSquare"})
    # judge
    work = tempfile.mkdtemp(prefix="tl.", dir=tlc._scratch())
    path = os.path.join(work, "trace.json")
    json.dump(recs, open(path, "w"))
    jres = tlc.run_tlc("TraceEstim", CFG_T, workers=1, timeout=900, env={"TRACE_FILE": path})
    shutil.rmtree(work, ignore_errors=True)
    mm = re.search(r'<<\s*"BAD",\s*(\{.*?\}),\s*"MISSING",\s*(\{.*?\})\s*>>', jres.output, flags=re.S)
    if not mm:
        ctx.machinery_error("TraceEstim: " + (jres.machinery_error or jres.output[-300:]))
    else:
        for tpl in sorted(tlc.parse_value(mm.group(1))):
            r = recs[tpl[0] - 1]
            if tpl[1].startswith("d:"):
                ctx.spec_drift("%s: %r" % (tpl[1], r))
                continue
            ctx.violation("%s:%s" % (tpl[1], r.get("curve")), "%s fails: %r" % (tpl[1], r), r)
        missing = tlc.parse_value(mm.group(2))
        if missing:
            ctx.machinery_error("clauses never exercised: %r" % sorted(missing))
    ctx.cov = {"evaluations": len(recs), "distinct_nontrivial": len({(r.get("cls"), r.get("curve"), r.get("with_m0")) for r in recs if r["k"] == "num"}),
               "rule": "per closed curve one randomly refined mesh: atom conformance of both estimators (with/without initial data), numerical equality with the definition via a replayed copy refined "
                       "by real bisection (Dirichlet data), vanishing, non-negativity, pool == serial, Prolongate; Singular problem (u0 = 1) on the unit square",
               "samples": [r for r in recs if r["k"] == "num"][:3], "models": models, "per_curve": stats, "judge_tlc": jres.stats()}
    ctx.assumptions = ["atoms are pseudo-random numbers keyed by element geometry with a dominant diagonal (scaling factors positive)",
                       "definition computed with single bilform / linform evaluations on a replayed copy refined by real uniform bisection"]
    return ctx.finish()


def refined_mesh_with_path(lay, rng, steps):
    """random refinement (aspect kept moderate) together with the operation path that reproduces it on a fresh mesh"""
    mesh = lay.new_mesh()
    ops = []
    with contextlib.redirect_stdout(io.StringIO()):
        for _ in range(steps):
            e = rng.choice(list(mesh.leaf_elements))
            ax = rng.randrange(2)
            if e.h_x ** 2 / e.h_t > 8:
                ax = 1
            ops.append(("bisect", ml.leaf_tuple(e, lay), ax))
            mesh.refine_axis(e, ax)
    return mesh, ops


def mesh_path(mesh, lay):
    """operation path reproducing `mesh` on a fresh layout mesh (greedy top-down, as in c13.reach)"""
    from .c13_check import reach
    target = set(ml.project(mesh, lay))
    m = lay.new_mesh()
    ops = []
    for _ in range(10000):
        cur = ml.leaf_map(m, lay)
        todo = [k for k in cur if k not in target]
        if not todo:
            return ops
        k = todo[0]
        inside = [t for t in target if k[0] <= t[0] and t[1] <= k[1] and k[2] <= t[2] and t[3] <= k[3]]
        tm, xm = (k[0] + k[1]) // 2, (k[2] + k[3]) // 2
        if all(t[1] <= tm or t[0] >= tm for t in inside) and any(t[1] - t[0] < k[1] - k[0] for t in inside):
            op = ("bisect", k, 0)
        else:
            op = ("bisect", k, 1)
        ml.apply_op(m, lay, op)
        ops.append(op)
    raise RuntimeError("no path")
