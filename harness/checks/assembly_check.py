"""C17: assembly paths, worker schedules and the disk cache are transparent.

  1. Assembly.tla exhaustive (matrix variant with the inline path, vector variant without):
     every history of up to MaxCalls calls over the inputs, both values of use_mp, worker sets,
     every interleaving of pool workers, crash inside the store with every damage class, files
     truncated to every byte-length class or deleted between calls: Transparent, NoSharing,
     InlineNoFile, BigStepAgrees; CallsTerminate under fairness.
  2. behaviours simulated by TLC from the same module are executed against the real
     bilform_matrix / linform_vector with a real cache directory, real files damaged at the real
     byte classes and real process pools (mp.cpu_count patched); every returned array is compared
     bitwise with entry-by-entry evaluation; the recorded history is judged by TLC (TraceAssembly).
  3. key separation: lists differing in one element, permuted lists, exchanged test/trial, another
     curve -- distinct files (clause no-sharing).
"""
import contextlib
import io
import os
import random
import shutil
import tempfile

import numpy as np

from .. import assembly_lib as al
from .. import tlc
from ..common import Ctx, setup_path

CFG = """CONSTANTS Inputs = %(Inputs)s SmallInputs = %(Small)s NCols = %(NCols)d Workers = %(Workers)s
  HasInline = %(HasInline)s MaxCalls = %(MaxCalls)d MaxFaults = %(MaxFaults)d PersistentPool = FALSE
SPECIFICATION %(Spec)s
INVARIANT Transparent
INVARIANT NoSharing
INVARIANT InlineNoFile
INVARIANT BigStepAgrees
%(Extra)s
CHECK_DEADLOCK FALSE
"""


def fmt(s):
    return "{" + ", ".join('"%s"' % x for x in sorted(s)) + "}"


def model(ctx, inputs, small, ncols, workers, has_inline, maxcalls, maxfaults, liveness=False):
    cfg = CFG % {"Inputs": fmt(inputs), "Small": fmt(small), "NCols": ncols, "Workers": "{" + ", ".join(map(str, workers)) + "}",
                 "HasInline": "TRUE" if has_inline else "FALSE", "MaxCalls": maxcalls, "MaxFaults": maxfaults,
                 "Spec": "FairSpec" if liveness else "Spec", "Extra": "PROPERTY CallsTerminate" if liveness else ""}
    res = tlc.run_tlc("Assembly", cfg, timeout=3000, coverage=True)
    st = {"inputs": sorted(inputs), "small": sorted(small), "ncols": ncols, "workers": list(workers), "has_inline": has_inline,
          "maxcalls": maxcalls, "maxfaults": maxfaults, "liveness": liveness, "tlc": res.stats(),
          "action_coverage": {k: v[1] for k, v in res.coverage.items()}}
    if res.machinery_error:
        ctx.machinery_error("Assembly.tla: " + res.machinery_error)
    elif not res.ok:
        ctx.violation("model:Assembly:%s" % res.violated, "Assembly.tla violates %s" % res.violated, {"cfg": cfg, "tlc_output_tail": res.output[-3000:]})
    else:
        never = [a for a in ("Call", "TryLoad", "Serial", "SomeWorkerTakes", "SomeWorkerDone", "ParentCollect", "PoolFinish", "SaveBegin", "SaveEnd", "Crash", "Truncate", "Delete")
                 if res.coverage and res.coverage.get(a, (0, 0))[1] == 0]
        if never:
            ctx.machinery_error("Assembly.tla: actions never taken (vacuity): %r" % never)
    return st


def persistent_pool_diagnostic(ctx):
    """the design hazard behind several seeded defects: a pool kept between calls serves later calls with the element lists
    its workers inherited at fork time -- with PersistentPool = TRUE the model must violate Transparent"""
    cfg = (CFG % {"Inputs": fmt({"i1", "i2"}), "Small": fmt(set()), "NCols": 2, "Workers": "{1, 2}", "HasInline": "TRUE", "MaxCalls": 2, "MaxFaults": 0,
                  "Spec": "Spec", "Extra": ""}).replace("PersistentPool = FALSE", "PersistentPool = TRUE")
    res = tlc.run_tlc("Assembly", cfg, timeout=900)
    out = "Transparent violated (as it must be)" if res.violated == "Transparent" else "NOT violated: %r" % (res.violated or res.machinery_error,)
    if res.violated != "Transparent":
        ctx.spec_drift("Assembly.tla with a persistent pool no longer violates Transparent: %s" % out)
    return out


def behaviours(ctx, inputs, small, workers, has_inline, num, depth, seed):
    """simulate -> list of scripts [(event dict)]"""
    d = tempfile.mkdtemp(prefix="sim.", dir=tlc._scratch())
    cfg = CFG % {"Inputs": fmt(inputs), "Small": fmt(small), "NCols": 2, "Workers": "{" + ", ".join(map(str, workers)) + "}",
                 "HasInline": "TRUE" if has_inline else "FALSE", "MaxCalls": 6, "MaxFaults": 4, "Spec": "Spec", "Extra": ""}
    res = tlc.run_tlc("Assembly", cfg, workers=1, timeout=900, simulate="file=%s/tr,num=%d" % (d, num), depth=depth, seed=seed)
    scripts = []
    for fn in sorted(os.listdir(d)):
        if not fn.startswith("tr"):
            continue
        tr = tlc.read_sim_trace(os.path.join(d, fn))
        script = []
        for act, st in tr:
            last = st.get("last")
            if last and last.get("ev") in ("return", "crash", "truncate", "delete"):
                script.append(dict(last))
        if script:
            scripts.append(script)
    shutil.rmtree(d, ignore_errors=True)
    if res.machinery_error and not scripts:
        ctx.machinery_error("simulate: " + res.machinery_error)
    return scripts


def build_matrix_inputs(cache_dir):
    setup_path()
    from src.mesh import MeshParametrized
    from src.parametrization import Circle, UnitSquare
    from src.single_layer import SingleLayerOperator
    with contextlib.redirect_stdout(io.StringIO()):
        m1 = MeshParametrized(UnitSquare())
        for e in list(m1.leaf_elements):
            m1.refine(e)
        el = list(m1.leaf_elements)
        m1.refine_time(el[3])
        m1.refine_space(list(m1.leaf_elements)[5])
        SL1 = SingleLayerOperator(m1, cache_dir=cache_dir)
        e1 = list(m1.leaf_elements)
        m3 = MeshParametrized(Circle(), initial_time_mesh=[0, 0.5, 1])
        for e in list(m3.leaf_elements)[:3]:
            m3.refine(e)
        SL3 = SingleLayerOperator(m3, cache_dir=cache_dir)
        e3 = list(m3.leaf_elements)

    def ref(SL, test, trial):
        return np.array([[SL.bilform(tr, te) for tr in trial] for te in test], dtype=float)
    sets = {
        "i1": (SL1, e1, e1),
        "i2": (SL1, e1[:6], e1[:7]),             # 42 < 100: inline
        "i3": (SL3, e3, e3),                     # other curve, other operator object, same directory
        "i4": (SL1, e1, e1[:8]),                 # rectangular
        "i5": (SL1, e1, list(reversed(e1[:8]))),  # permuted trial list
        "i6": (SL1, e1[:8], e1),                 # test / trial exchanged
        "i7": (SL1, e1, e1[:7] + [e1[9]]),       # differs from i4 in one element
    }
    inputs = {}
    for name, (SL, te, tr) in sets.items():
        inputs[name] = {"call": (lambda SL=SL, te=te, tr=tr: (lambda mp: SL.bilform_matrix(te, tr, use_mp=mp)))(),
                        "ref": ref(SL, te, tr), "shape": (len(te), len(tr))}
    # the other documented call forms: one list (trial = test), no list (all leaves), keywords, tuples instead of lists
    perm = e1[5:] + e1[:5][::-1]
    rev = list(reversed(e1))
    inputs["i8"] = {"call": lambda mp: SL1.bilform_matrix(perm, use_mp=mp), "ref": ref(SL1, perm, perm), "shape": (len(perm), len(perm))}
    inputs["i9"] = {"call": lambda mp: SL3.bilform_matrix(use_mp=mp), "ref": ref(SL3, e3, e3), "shape": (len(e3), len(e3))}
    inputs["i10"] = {"call": lambda mp: SL1.bilform_matrix(elems_trial=tuple(e1[:8]), elems_test=tuple(rev), use_mp=mp), "ref": ref(SL1, rev, e1[:8]),
                     "shape": (len(rev), 8)}
    # test elements of the first half of the time interval only, trial = all leaves with the late ones first: whole trial
    # columns vanish by causality, in front of columns that do not
    early = [e for e in e1 if float(e.time_interval[1]) <= 0.5]
    late_first = sorted(e1, key=lambda e: -float(e.time_interval[0]))
    # small (inline path) square blocks from two different lists: overlapping and disjoint
    inputs["i12"] = {"call": lambda mp: SL1.bilform_matrix(e1[:6], e1[3:9], use_mp=mp), "ref": ref(SL1, e1[:6], e1[3:9]), "shape": (6, 6)}
    inputs["i13"] = {"call": lambda mp: SL3.bilform_matrix(e3[:4], e3[-4:], use_mp=mp), "ref": ref(SL3, e3[:4], e3[-4:]), "shape": (4, 4)}
    inputs["i11"] = {"call": lambda mp: SL1.bilform_matrix(early, late_first, use_mp=mp), "ref": ref(SL1, early, late_first), "shape": (len(early), len(late_first))}
    return inputs


def build_vector_inputs(cache_dir):
    setup_path()
    from src.initial_mesh import UnitSquareBoundaryRefined
    from src.initial_potential import InitialOperator
    from src.mesh import MeshParametrized
    from src.parametrization import UnitSquare
    with contextlib.redirect_stdout(io.StringIO()):
        m = MeshParametrized(UnitSquare())
        for e in list(m.leaf_elements)[:2]:
            m.refine(e)
        M0 = InitialOperator(bdr_mesh=m, u0=lambda xy: np.sin(xy[0]) * xy[1] + 1, initial_mesh=UnitSquareBoundaryRefined, cache_dir=cache_dir)
        el = list(m.leaf_elements)
    sets = {"v1": el, "v2": el[:5], "v3": list(reversed(el[:5]))}
    inputs = {}
    for name, es in sets.items():
        inputs[name] = {"call": (lambda es=es: (lambda mp: M0.linform_vector(elems=es, use_mp=mp)))(),
                        "ref": np.array([M0.linform(e)[0] for e in es], dtype=float)}
    return inputs


def build_biglist_inputs(cache_dir):
    """long element lists (> 250 elements) that differ in one middle element: key separation must not depend on an
    abbreviated rendering of the list.  Entry evaluation is stubbed by a cheap geometry-keyed value: the clause concerns
    the plumbing (keys, paths, pools), which is unchanged by the stub."""
    setup_path()
    import hashlib
    from src.initial_mesh import UnitSquareBoundaryRefined
    from src.initial_potential import InitialOperator
    from src.mesh import MeshParametrized
    from src.parametrization import UnitSquare
    from src.single_layer import SingleLayerOperator
    with contextlib.redirect_stdout(io.StringIO()):
        m = MeshParametrized(UnitSquare())
        for _ in range(3):
            m.uniform_refine()
        for e in list(m.leaf_elements)[:4]:
            m.refine_space(e)
        M0 = InitialOperator(bdr_mesh=m, u0=lambda xy: 1 + 0 * xy[0], initial_mesh=UnitSquareBoundaryRefined, cache_dir=cache_dir)
        SL = SingleLayerOperator(m, cache_dir=cache_dir)

    def val(*es):
        h = hashlib.sha1(repr([(e.time_interval, e.space_interval) for e in es]).encode()).digest()
        return int.from_bytes(h[:6], "big") / 2 ** 48
    M0.linform = lambda e: (val(e), [])
    causal = lambda te, tr: not te.time_interval[1] <= tr.time_interval[0]
    SL.bilform = lambda tr, te: val(te, tr) if causal(te, tr) else 0.0      # the stub keeps the causality guard of the pool worker meaningful
    el = list(m.leaf_elements)
    A = el[:255]
    B = list(A)
    B[130] = el[258]
    C = list(A)
    C[7], C[200] = C[200], C[7]          # permutation of A
    inputs = {}
    for name, es in (("b1", A), ("b2", B), ("b3", C)):
        inputs[name] = {"call": (lambda es=es: (lambda mp: M0.linform_vector(elems=es, use_mp=mp)))(), "ref": np.array([val(e) for e in es], dtype=float)}
    for name, (te, tr) in (("c1", (A[:40], A)), ("c2", (B[:40], B))):
        inputs[name] = {"call": (lambda te=te, tr=tr: (lambda mp: SL.bilform_matrix(te, tr, use_mp=mp)))(),
                        "ref": np.array([[val(a, b) if causal(a, b) else 0.0 for b in tr] for a in te], dtype=float)}
    return inputs


def build_estimator_inputs(cache_dir):
    """extension beyond the listed property: the cached estimator vectors of ErrorEstimator (same cache protocol, the
    store is not wrapped in a try); deviations are reported as SPEC-DRIFT only"""
    setup_path()
    from src.error_estimator import ErrorEstimator
    from src.mesh import MeshParametrized
    from src.parametrization import UnitSquare
    with contextlib.redirect_stdout(io.StringIO()):
        m = MeshParametrized(UnitSquare())
        for e in list(m.leaf_elements):
            m.refine(e)
        est = ErrorEstimator(m, N_poly=5, cache_dir=cache_dir)
    el = list(m.leaf_elements)
    res = lambda t, xh, gm: (1 + np.asarray(t, float)) * np.sin(gm(np.asarray(xh, float))[0])
    inputs = {}
    for name, es in (("e1", el), ("e2", el[:9])):
        inputs[name] = {"call": (lambda es=es: (lambda mp: est.estimate_weighted_l2(es, res, use_mp=mp)))(),
                        "ref": np.array([est.weighted_l2(e, res) for e in es], dtype=float)}
    return inputs


def execute(ctx, scripts, inputs, names, small, has_inline, rng, tag):
    """run the scripts on the real code, judge, report"""
    cache_dir = inputs["_dir"]
    h = al.Harness({n: inputs[n] for n in names}, cache_dir, rng)
    events, meta = [], []
    for si, script in enumerate(scripts):
        events.append(h.reset())
        meta.append((si, None))
        for ev in script:
            if ev["ev"] == "return":
                e = h.call(ev["in"], ev["mp"], ev["w"])
            elif ev["ev"] == "crash":
                e = h.call(ev["in"], ev["mp"], ev["w"], crash_kind=ev["kind"])
            elif ev["ev"] == "truncate":
                e = h.truncate(ev["in"], ev["kind"])
            else:
                e = h.delete(ev["in"])
            events.append(e)
            meta.append((si, ev))
    bad, jres = al.judge(events, names, small, has_inline)
    st = {"tag": tag, "scripts": len(scripts), "events": len(events), "calls": sum(1 for e in events if e["k"] == "call"),
          "paths": {p: sum(1 for e in events if e.get("path") == p) for p in ("inline", "hit", "serial", "pool")},
          "crashes": sum(1 for e in events if e["k"] == "crash"), "faults": sum(1 for e in events if e["k"] in ("truncate", "delete")),
          "tlc": jres.stats()}
    if jres.machinery_error:
        ctx.machinery_error("%s judge: %s" % (tag, jres.machinery_error))
        return st, events
    for l, clause in bad:
        si, ev = meta[l - 1]
        hist = [e for (s, e) in meta[:l] if s == si and e is not None]
        if clause.startswith("d:") or tag.startswith("extension"):
            ctx.spec_drift("%s: %s at %r" % (tag, clause, {k: v for k, v in events[l - 1].items() if k != "disk"}))
            continue
        e = events[l - 1]
        key = "%s:%s:%s" % (clause, tag, e.get("path") or e["k"])
        ctx.violation(key, "clause %s fails for %s (history of %d events) %s" % (clause, {k: v for k, v in e.items() if k != "disk"}, len(hist), e.get("exc", "")),
                      {"variant": tag, "history": hist, "observed": e})
    return st, events


def fixed_scripts(names, small, kinds, workers):
    """deterministic histories every run contains: fresh/warm/each damage class/crash/delete, both paths"""
    big = [n for n in names if n not in small]
    s = []
    for n in big[:2]:
        for mp in (False, True):
            script = [{"ev": "return", "in": n, "mp": mp, "w": workers[-1]}, {"ev": "return", "in": n, "mp": not mp, "w": 1}]
            for k in kinds:
                script += [{"ev": "truncate", "in": n, "kind": k}, {"ev": "return", "in": n, "mp": mp, "w": workers[0]},
                           {"ev": "return", "in": n, "mp": False, "w": 1}]
            script += [{"ev": "crash", "in": n, "mp": mp, "w": 2, "kind": "half"}, {"ev": "return", "in": n, "mp": not mp, "w": 2},
                       {"ev": "delete", "in": n}, {"ev": "return", "in": n, "mp": mp, "w": 3}]
            s.append(script)
    # all inputs after each other against one directory: no sharing
    s.append([{"ev": "return", "in": n, "mp": False, "w": 1} for n in names] + [{"ev": "return", "in": n, "mp": True, "w": 2} for n in names])
    return s


def run(prop, tier, seed):
    ctx = Ctx("C17", tier, seed)
    rng = random.Random(seed + 17)
    quick = tier == "quick"
    models = [
        model(ctx, {"i1", "i2"}, {"i2"}, 2, (1, 2), True, 3, 2),
        model(ctx, {"i1", "i2", "i3"}, {"i2"}, 2, (1, 2, 3) if not quick else (1, 2), True, 3, 2 if quick else 3),
        model(ctx, {"v1", "v2"}, set(), 2 if quick else 3, (1, 2), False, 3, 2),
        model(ctx, {"i1", "i2"}, {"i2"}, 2, (1, 2), True, 2, 1, liveness=True),
    ]
    for m in models:
        ctx.log("model %s" % {k: v for k, v in m.items() if k != "action_coverage"})
    tmp = tempfile.mkdtemp(prefix="cache.", dir=tlc._scratch())
    runs = []
    all_events = []
    pool_diag = persistent_pool_diagnostic(ctx)
    try:
        mdir = os.path.join(tmp, "m")
        os.makedirs(mdir)
        mi = build_matrix_inputs(mdir)
        mi["_dir"] = mdir
        workers = (1, 2, 3) if quick else (1, 2, 3, 5, 16)
        for names, nsim in ((["i1", "i2", "i3"], 12 if quick else 400), (["i4", "i5", "i6", "i7"], 4 if quick else 150)):
            small = {"i2"} & set(names)
            scripts = behaviours(ctx, set(names), small, workers, True, nsim, 60, seed + len(names))
            scripts = fixed_scripts(names, small, al.KINDS, workers) + scripts
            st, ev = execute(ctx, scripts, mi, names, small, True, rng, "matrix")
            runs.append(st)
            all_events += ev
            ctx.log("replay %s" % st)
        mdir2 = os.path.join(tmp, "m2")
        os.makedirs(mdir2)
        mi2 = build_matrix_inputs(mdir2)
        mi2["_dir"] = mdir2
        names = ["i8", "i9", "i10", "i11"]
        both_paths = [[ev for n in names for ev in ({"ev": "return", "in": n, "mp": True, "w": 3}, {"ev": "delete", "in": n},
                                                    {"ev": "return", "in": n, "mp": False, "w": 1}, {"ev": "return", "in": n, "mp": True, "w": 2})]]
        scripts = both_paths + fixed_scripts(names, set(), al.KINDS[:2], workers)[:3] + behaviours(ctx, set(names), set(), workers, True, 3 if quick else 40, 40, seed + 9)
        st, ev = execute(ctx, scripts, mi2, names, set(), True, rng, "matrix-call-forms")
        runs.append(st)
        all_events += ev
        ctx.log("replay %s" % st)
        names = ["i12", "i13", "i8"]
        small_sq = {"i12", "i13"}
        scripts = [[{"ev": "return", "in": n, "mp": mp_, "w": 2} for n in names for mp_ in (False, True)]] + \
            behaviours(ctx, set(names), small_sq, workers, True, 2 if quick else 20, 30, seed + 11)
        st, ev = execute(ctx, scripts, mi2, names, small_sq, True, rng, "matrix-small-square-blocks")
        runs.append(st)
        all_events += ev
        ctx.log("replay %s" % st)
        vdir = os.path.join(tmp, "v")
        os.makedirs(vdir)
        vi = build_vector_inputs(vdir)
        vi["_dir"] = vdir
        names = ["v1", "v2", "v3"]
        scripts = fixed_scripts(names, set(), al.KINDS[:3] if quick else al.KINDS, (1, 2, 3))[:2 if quick else 5] + \
            behaviours(ctx, set(names), set(), (1, 2, 3), False, 3 if quick else 40, 50, seed + 5)
        st, ev = execute(ctx, scripts, vi, names, set(), False, rng, "vector")
        runs.append(st)
        all_events += ev
        ctx.log("replay %s" % st)
        # long lists (> 250 elements) differing in one element / permuted: no shared cache entry, every path transparent
        bdir = os.path.join(tmp, "b")
        os.makedirs(bdir)
        bi = build_biglist_inputs(bdir)
        bi["_dir"] = bdir
        for names in (["b1", "b2", "b3"], ["c1", "c2"]):
            script = [[{"ev": "return", "in": n, "mp": False, "w": 1} for n in names] + [{"ev": "return", "in": n, "mp": True, "w": 3} for n in names] +
                      [{"ev": "delete", "in": names[0]}] + [{"ev": "return", "in": n, "mp": True, "w": 2} for n in reversed(names)]]
            st, ev = execute(ctx, script, bi, names, set(), False, rng, "biglist")
            runs.append(st)
            ctx.log("replay %s" % st)
        # extension: cached estimator vectors follow the same protocol (diagnostic only)
        edir = os.path.join(tmp, "e")
        os.makedirs(edir)
        ei = build_estimator_inputs(edir)
        ei["_dir"] = edir
        st, ev = execute(ctx, fixed_scripts(["e1", "e2"], set(), al.KINDS[:3], (1, 2))[:2], ei, ["e1", "e2"], set(), False, rng, "extension:estimator-cache")
        runs.append(st)
        ctx.log("replay %s" % st)
        # binding self-test: flipping an equality flag / a disk projection must be rejected
        import copy
        a = copy.deepcopy([e for e in all_events[:12]])
        k = next(i for i, e in enumerate(a) if e["k"] == "call")
        a[k]["equal"] = False
        bad, _ = al.judge(a, ["i1", "i2", "i3"], {"i2"}, True)
        st_self = {"flipped_equal_rejected": bool(bad) and "transparent" in [c for _, c in bad]}
        b = copy.deepcopy([e for e in all_events[:12]])
        k = next(i for i, e in enumerate(b) if e["k"] == "call" and e["path"] in ("serial", "pool"))
        b[k]["disk"][b[k]["in"]] = "absent"
        bad, _ = al.judge(b, ["i1", "i2", "i3"], {"i2"}, True)
        st_self["missing_store_rejected"] = bool(bad) and "cache-state" in [c for _, c in bad]
        if not all(st_self.values()):
            ctx.machinery_error("binding self-test failed: %r" % st_self)
    finally:
        shutil.rmtree(tmp, ignore_errors=True)
    ctx.cov = {
        "states": sum(m["tlc"]["distinct"] for m in models), "transitions": sum(m["tlc"]["generated"] for m in models),
        "traces_validated_against_impl": sum(r["scripts"] for r in runs),
        "samples": [{k: v for k, v in e.items()} for e in all_events[1:4]],
        "exhaustive": True, "models": models, "persistent_pool_diagnostic": pool_diag, "replays": runs, "binding_selftest": st_self,
        "rule": "Assembly.tla exhaustive for the listed constants; TLC-simulated behaviours + fixed fault histories executed on real files and real pools, bitwise comparison, judged by TraceAssembly",
    }
    ctx.assumptions = [
        "a crash inside np.save is realised as: the call completes, then the stored file is damaged to the crash's byte class and the result is discarded",
        "OS-level scheduling of pool workers is not controlled; worker counts 1..16 and chunk size are varied, the model covers all interleavings",
        "reference arrays are single bilform / linform evaluations by the same process (bitwise comparison)",
    ]
    return ctx.finish()
