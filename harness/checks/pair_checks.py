"""C04 (causality), C11 (additivity under splitting), C12 (symmetries): element-pair checks on the
population enumerated by Panels.tla, judged by TLC (TracePanels)."""
import contextlib
import io
import math
import random

import numpy as np

from .. import panels_lib as pl
from ..common import Ctx, setup_path
from ..judge import dev

# (curve, MaxL, TLevels, TH[, time unit]): the last two entries are the same abstract pairs on a strongly time-graded
# scale (h_t down to 1/1024), where only the small elements satisfy aspect <= 32
FINE = [("UnitSquare", 3, 1, 1, 1.0 / 256), ("Circle", 5, 1, 1, 1.0 / 128)]
PLAN_Q = [("UnitSquare", 2, 2, 2), ("PiSquare", 1, 2, 2), ("LShape", 1, 2, 2), ("Circle", 4, 2, 2), ("UnitInterval", 2, 2, 2)] + FINE
PLAN_T = [("UnitSquare", 3, 2, 2), ("PiSquare", 2, 2, 2), ("LShape", 2, 2, 2), ("Circle", 5, 2, 2), ("UnitInterval", 3, 2, 2)] + FINE


def population(ctx, name, maxl, tlevels, th, want, tunit=None):
    res, pairs = pl.model_pairs(name, maxl, tlevels, th)
    st = {"curve": name, "MaxL": maxl, "TLevels": tlevels, "TH": th, "tlc": res.stats(), "pairs_in_model": len(pairs)}
    if res.machinery_error:
        ctx.machinery_error("Panels %s: %s" % (name, res.machinery_error))
        return st, None, {}
    if not res.ok:
        ctx.violation("model:Panels:%s:%s" % (name, res.violated), "Panels.tla violates %s for %s" % (res.violated, name), {"tlc_output_tail": res.output[-2500:]})
        return st, None, {}
    sh = pl.Shape(name, maxl, tlevels, tunit)
    st["time_unit"] = sh.tunit
    by = {}
    inadmissible = 0
    for te, tr in pairs:
        if not want(sh, te, tr):
            continue
        if not sh.admissible(te, tr):
            inadmissible += 1       # cannot be two leaves (or leaf and child / quarter) of one 1-irregular mesh: outside the quantifier
            continue
        by.setdefault((sh.space_rel(te, tr), sh.allen(te, tr)), []).append((te, tr))
    st["classes"] = len(by)
    st["pairs_outside_quantifier"] = inadmissible
    return st, sh, by


def report(ctx, name, recs, bad, missing, jres, keyfn, maxl, tlevels, th=2, tunit=None):
    if jres.machinery_error:
        ctx.machinery_error("judge %s: %s" % (name, jres.machinery_error))
        return
    for i, clause in bad:
        r = recs[i]
        if clause.startswith("d:"):
            ctx.spec_drift("%s: %s for %r" % (name, clause, {k: v for k, v in r.items() if k in ("chan", "te", "tr", "cls", "g", "s", "split")}))
            continue
        ctx.violation(keyfn(clause, r), "%s on %s: %r" % (clause, name, {k: v for k, v in r.items() if k not in ("decomp",)}),
                      {"curve": name, "MaxL": maxl, "TLevels": tlevels, "TH": th, "time_unit": tunit, "record": r})
    if missing:
        ctx.machinery_error("classes never exercised on %s: %r" % (name, missing[:6]))


# =====================================================================================
# C04
# =====================================================================================
def run_c04(prop, tier, seed):
    setup_path()
    ctx = Ctx("C04", tier, seed)
    rng = random.Random(seed + 4)
    quick = tier == "quick"
    per_class = 2 if quick else 10
    stats, total, cells, samples = [], 0, set(), []
    for name, maxl, tlevels, th, *tu in (PLAN_Q if quick else PLAN_T):
        st, sh, by = population(ctx, name, maxl, tlevels, th, lambda sh, te, tr: sh.aspect(te) <= 32 and sh.aspect(tr) <= 32, *tu)
        if sh is None:
            stats.append(st)
            continue
        fac = pl.Factory(sh, th)
        sel = []
        for cls in sorted(by):
            lst = by[cls]
            rng.shuffle(lst)
            sel += [(cls, te, tr) for te, tr in lst[:per_class]]
        # a pair kept in every run: far apart on one side, thin slabs (exact value 1e-21 of the diagonal scale)
        if (name, maxl, tlevels) == ("UnitSquare", 3, 1) and tu:
            for cls in by:
                if ((1, 2, 0, 1), (0, 2, 7, 8)) in by[cls] and (cls, (1, 2, 0, 1), (0, 2, 7, 8)) not in sel:
                    sel.append((cls, (1, 2, 0, 1), (0, 2, 7, 8)))
        # reference values only for causal pairs (positivity clause) and the diagonals (scale)
        jobs = []
        for cls, te, tr in sel:
            jobs += [(name, sh.real(te), sh.real(te)), (name, sh.real(tr), sh.real(tr))]
            if te[1] > tr[0]:
                jobs.append((name, sh.real(te), sh.real(tr)))
        refs = pl.ref_entries(jobs)
        recs, required = [], set()
        for cls, te, tr in sel:
            Ete, Etr = fac.get(te), fac.get(tr)
            D = math.sqrt(refs[(name, sh.real(te), sh.real(te))] * refs[(name, sh.real(tr), sh.real(tr))])
            ref = refs.get((name, sh.real(te), sh.real(tr)), 0.0)
            chans = [("bilform", lambda: fac.SL.bilform(Etr, Ete))]
            if Ete.gamma_space is Etr.gamma_space:
                chans.append(("bilform-exact", lambda: fac.SLx.bilform(Etr, Ete)))
            # matrix paths on the two-element lists: rows = test, columns = trial
            chans.append(("matrix-inline", lambda: fac.SL.bilform_matrix([Ete], [Etr])[0, 0]))
            for chan, f in chans:
                with contextlib.redirect_stdout(io.StringIO()):
                    v = float(f())
                recs.append({"chan": chan, "te": list(te), "tr": list(tr), "cls": list(cls), "zero": v == 0.0,
                             "nonneg": v >= -1e-15 * D, "refpos": ref > 1e-250, "pos": v > 0.0, "value": repr(v),
                             "below_rounding": bool(0.0 < ref < 1e-15 * D), "ref_over_scale": repr(ref / D)})
                required.add((chan, cls[0], cls[1]))
        # point channels: evaluate / evaluate_exact / potential at the five time positions
        elems = sorted({tr for _, _, tr in sel})
        rng.shuffle(elems)
        for tr in elems[:(12 if quick else 60)]:
            Etr = fac.get(tr)
            c, d = tr[0], tr[1]
            times = [c - 1 if c > 0 else None, c, (c + d) // 2 if (d - c) >= 2 else None, d, d + 1]
            xs = [tr[2], (tr[2] + tr[3]) // 2 if tr[3] - tr[2] >= 2 else tr[2], tr[3], (tr[3] + 3) % sh.L]
            for t in times:
                if t is None or t > th * sh.UT:
                    continue
                for x in xs[:3] + [xs[3]]:
                    treal = t / sh.UT * sh.tunit
                    xreal = min(max(x / sh.U * sh.unit, 0.0), fac.gamma.gamma_length)
                    X = np.asarray(fac.gamma.eval(np.array([xreal]))).reshape(2, 1)
                    te = [t, t, x, x]
                    obs = [("evaluate", lambda: fac.SL.evaluate(Etr, float(treal), float(xreal), X))]
                    if name != "Circle" and _same_piece(sh, tr, x):
                        # evaluate_exact is meant for points on the element's own straight line
                        obs.append(("evaluate_exact", lambda: fac.SL.evaluate_exact(Etr, float(treal), float(xreal))))
                    obs.append(("potential", lambda: fac.SL.potential(Etr, float(treal), X + np.array([[0.37], [0.21]]))))
                    for chan, f in obs:
                        try:
                            v = float(f())
                        except AssertionError:
                            continue      # documented precondition of the interval rule (point too close to an end point)
                        recs.append({"chan": chan, "te": te, "tr": list(tr), "zero": v == 0.0, "nonneg": v >= -1e-15, "value": repr(v)})
        bad, missing, jres = pl.judge(name, maxl, tlevels, th, recs, required)
        st.update({"selected_pairs": len(sel), "judged": len(recs), "judge_tlc": jres.stats(),
                   "point_records": sum(1 for r in recs if r["chan"] in ("evaluate", "evaluate_exact", "potential"))})
        report(ctx, name, recs, bad, missing, jres,
               lambda clause, r: "%s%s:%s:%s" % (clause, "-below-rounding" if clause == "not-positive" and r.get("below_rounding") else "",
                                                 r["chan"], r.get("cls", ["point"])[-1] if "cls" in r else "point"), maxl, tlevels, th, sh.tunit)
        total += len(recs)
        cells |= {(name,) + q for q in required}
        if recs and len(samples) < 3:
            samples.append(recs[len(recs) // 3])
        # whole-mesh zero patterns: serial and pool assembly, rows = test, columns = trial
        zp = zero_pattern(ctx, fac, sh, name, rng, quick)
        st["zero_pattern_meshes"] = zp
        stats.append(st)
        ctx.log("curve %s" % st)
    ctx.cov = {"evaluations": total, "distinct_nontrivial": len(cells),
               "rule": "pairs enumerated by Panels.tla, stratified by (space relation, Allen relation) incl. all 13 Allen relations; channels bilform / "
                       "bilform with the switch / bilform_matrix (inline, serial, pool) / evaluate / evaluate_exact / potential; TLC decides acausality from the integers",
               "samples": samples, "per_curve": stats, "exhaustive": False}
    ctx.assumptions = ["reference value only for the positivity clause; scale sqrt(D_i D_j) from the reference diagonal entries",
                       "point channels: times at start-1, start, middle, end, end+1 of the trial element; potential at an off-curve point"]
    return ctx.finish()


def _same_piece(sh, tr, x):
    i = sh.piece(tr)
    return sh.starts[i] <= x <= sh.starts[i + 1]


def zero_pattern(ctx, fac, sh, name, rng, quick):
    """bilform_matrix on a whole two-slab mesh: observed zero pattern == predicted (rows test, cols trial)"""
    n = 0
    with contextlib.redirect_stdout(io.StringIO()):
        mesh = fac.new_mesh()
        for _ in range(6 if quick else 14):
            e = rng.choice(list(mesh.leaf_elements))
            if e.h_x ** 2 / e.h_t > 8:
                mesh.refine_space(e)
            else:
                mesh.refine_axis(e, rng.randrange(2))
        from src.single_layer import SingleLayerOperator
        SL = SingleLayerOperator(mesh)
        elems = list(mesh.leaf_elements)
        mats = {"serial": SL.bilform_matrix(elems, elems, use_mp=False)}
        if len(elems) ** 2 >= 100:
            mats["pool"] = SL.bilform_matrix(elems, elems, use_mp=True)
        sub = elems[:7]
        mats["inline"] = SL.bilform_matrix(sub, elems[:9], use_mp=False)
    for path, M in mats.items():
        rows = sub if path == "inline" else elems
        cols = elems[:9] if path == "inline" else elems
        for i, te in enumerate(rows):
            for j, tr in enumerate(cols):
                acausal = te.time_interval[1] <= tr.time_interval[0]
                n += 1
                if acausal and M[i, j] != 0.0:
                    ctx.violation("acausal-nonzero:matrix-%s" % path, "matrix path %s on %s: entry [test %r, trial %r] = %r is acausal but non-zero"
                                  % (path, name, te, tr, M[i, j]), {"curve": name, "path": path, "test": repr(te), "trial": repr(tr)})
                if not acausal and not M[i, j] > 0.0:
                    ctx.violation("not-positive:matrix-%s" % path, "matrix path %s on %s: causal entry [test %r, trial %r] = %r is not positive"
                                  % (path, name, te, tr, M[i, j]), {"curve": name, "path": path, "test": repr(te), "trial": repr(tr)})
    return {"elements": len(elems), "entries_checked": n, "paths": sorted(mats)}


# =====================================================================================
# C11
# =====================================================================================
KINDS = ("none", "time", "space", "quarter")


def pieces_of(e, kind):
    t0, t1, x0, x1 = e
    tm, xm = (t0 + t1) // 2, (x0 + x1) // 2
    if kind == "none":
        return [e]
    if kind == "time":
        return [(t0, tm, x0, x1), (tm, t1, x0, x1)]
    if kind == "space":
        return [(t0, t1, x0, xm), (t0, t1, xm, x1)]
    return [(t0, tm, x0, xm), (t0, tm, xm, x1), (tm, t1, x0, xm), (tm, t1, xm, x1)]


def run_c11(prop, tier, seed):
    setup_path()
    ctx = Ctx("C11", tier, seed)
    rng = random.Random(seed + 11)
    quick = tier == "quick"
    per_class = 1 if quick else 5
    stats, total, cells, samples, worst = [], 0, set(), [], 0
    from src.hierarchical_error_estimator import DummyElement
    for name, maxl, tlevels, th, *tu in (PLAN_Q if quick else PLAN_T):
        def want(sh, te, tr):
            # splittable on the integer grid, causal, aspect <= 32 also after a time split
            return (te[1] > tr[0] and all(e[1] - e[0] >= 2 and e[3] - e[2] >= 2 for e in (te, tr))
                    and sh.aspect(te) <= 16 and sh.aspect(tr) <= 16)
        st, sh, by = population(ctx, name, maxl, tlevels, th, want, *tu)
        if sh is None:
            stats.append(st)
            continue
        fac = pl.Factory(sh, th)
        sel = []
        for cls in sorted(by):
            lst = by[cls]
            rng.shuffle(lst)
            sel += [(cls, te, tr) for te, tr in lst[:per_class]]
        jobs = []
        for cls, te, tr in sel:
            jobs += [(name, sh.real(te), sh.real(te)), (name, sh.real(tr), sh.real(tr))]
        refs = pl.ref_entries(jobs)
        recs, required = [], set()
        for n_, (cls, te, tr) in enumerate(sel):
            Ete, Etr = fac.get(te), fac.get(tr)
            D = math.sqrt(refs[(name, sh.real(te), sh.real(te))] * refs[(name, sh.real(tr), sh.real(tr))])
            combos = [(a, b) for a in KINDS for b in KINDS if (a, b) != ("none", "none")]
            if quick:
                rng.shuffle(combos)
                combos = combos[:5]
            for SLname, SL in (("quad", fac.SL), ("exact", fac.SLx)):
                if SLname == "exact" and (Ete.gamma_space is not Etr.gamma_space or not SL.pw_exact):
                    continue
                whole = SL.bilform(Etr, Ete)
                for ka, kb in combos:
                    pa, pb = pieces_of(te, ka), pieces_of(tr, kb)
                    # children by real bisection; quarters additionally as the estimator's virtual children
                    ra = [fac.get(p) for p in pa]
                    rb = [fac.get(p) for p in pb]
                    if ka == "quarter" and n_ % 2 == 0:
                        ra = DummyElement.uniform_refinement([Ete])[0]
                        SL._init_elems(ra)
                    if kb == "quarter" and n_ % 2 == 1:
                        rb = DummyElement.uniform_refinement([Etr])[0]
                        SL._init_elems(rb)
                    ssum = math.fsum(SL.bilform(b, a) for a in ra for b in rb)
                    dv = dev(ssum, whole, 1e-7 * D)
                    worst = max(worst, dv)
                    chan = "split-%s" % SLname
                    recs.append({"chan": chan, "te": list(te), "tr": list(tr), "cls": list(cls), "split": [ka, kb],
                                 "te_pieces": [list(p) for p in pa], "tr_pieces": [list(p) for p in pb], "dev": dv,
                                 "sum": repr(ssum), "whole": repr(float(whole))})
                    required.add((chan, cls[0], cls[1]))
        bad, missing, jres = pl.judge(name, maxl, tlevels, th, recs, required)
        st.update({"selected_pairs": len(sel), "judged": len(recs), "judge_tlc": jres.stats()})
        report(ctx, name, recs, bad, missing, jres, lambda clause, r: "%s:%s:%s" % (clause, r["chan"], r["cls"][0]), maxl, tlevels)
        total += len(recs)
        cells |= {(name,) + q for q in required}
        if recs and len(samples) < 3:
            samples.append({k: v for k, v in recs[len(recs) // 2].items() if k not in ("te_pieces", "tr_pieces")})
        stats.append(st)
        ctx.log("curve %s" % st)
    ctx.cov = {"evaluations": total, "distinct_nontrivial": len(cells),
               "rule": "causal pairs enumerated by Panels.tla (aspect <= 16 so that time halves stay <= 32), stratified by class; split kinds {none,time,space,quarter}^2 minus (none,none); "
                       "children by real bisection and as DummyElement quarters; both paths",
               "samples": samples, "per_curve": stats, "worst_dev_millionths": worst}
    ctx.assumptions = ["scale sqrt(D_test D_trial) from the reference diagonal entries; no other oracle (self-consistency)"]
    return ctx.finish()


# =====================================================================================
# C12
# =====================================================================================
def run_c12(prop, tier, seed):
    setup_path()
    ctx = Ctx("C12", tier, seed)
    rng = random.Random(seed + 12)
    quick = tier == "quick"
    per_class = 2 if quick else 8
    stats, total, cells, samples = [], 0, set(), []
    plan = [p for p in (PLAN_Q if quick else PLAN_T) if p[0] != "UnitInterval"]
    for name, maxl, tlevels, th, *tu in plan:
        st, sh, by = population(ctx, name, maxl, tlevels, th,
                                lambda sh, te, tr: te[1] > tr[0] and sh.aspect(te) <= 32 and sh.aspect(tr) <= 32, *tu)
        if sh is None:
            stats.append(st)
            continue
        fac = pl.Factory(sh, th)
        sel = []
        for cls in sorted(by):
            lst = by[cls]
            rng.shuffle(lst)
            sel += [(cls, te, tr) for te, tr in lst[:per_class]]
        jobs = []
        for cls, te, tr in sel:
            jobs += [(name, sh.real(te), sh.real(te)), (name, sh.real(tr), sh.real(tr))]
        refs = pl.ref_entries(jobs)
        recs, required = [], set()
        side = sh.U * sh.pieces[0]
        for cls, te, tr in sel:
            Ete, Etr = fac.get(te), fac.get(tr)
            D = math.sqrt(refs[(name, sh.real(te), sh.real(te))] * refs[(name, sh.real(tr), sh.real(tr))])
            v0 = fac.SL.bilform(Etr, Ete)
            moves = [("exchange", 0)]
            # common time shift staying inside the horizon, dyadic
            smax = th * sh.UT - max(te[1], tr[1])
            smin = -min(te[0], tr[0])
            step = max(te[1] - te[0], tr[1] - tr[0])
            shifts = [s for s in range(smin, smax + 1, step) if s != 0]
            if shifts:
                moves.append(("shift", rng.choice(shifts)))
            if name in ("UnitSquare", "PiSquare"):
                moves += [("rot", side * k) for k in (1, 2, 3)] + [("refl", 0)]
            if name == "Circle":
                big = max(te[3] - te[2], tr[3] - tr[2])
                moves += [("rot", big * k) for k in sorted({1, rng.randrange(1, sh.L // big), sh.L // big - 1})] + [("refl", 0)]
            for g, s in moves:
                te2, tr2 = move(sh, g, s, te, tr)
                if te2 is None:
                    continue
                try:
                    E2, R2 = fac.get(te2), fac.get(tr2)
                except Exception:
                    continue
                v1 = fac.SL.bilform(R2, E2)
                rec = {"chan": g, "te": list(te), "tr": list(tr), "cls": list(cls), "g": g, "s": s, "te2": list(te2), "tr2": list(tr2),
                       "v": repr(float(v0)), "v_moved": repr(float(v1))}
                if g in ("exchange", "shift"):
                    rec["bitwise"] = float(v0) == float(v1)
                else:
                    rec["dev"] = dev(v1, v0, 1e-7 * D)
                recs.append(rec)
                required.add((g, cls[0], cls[1]))
        bad, missing, jres = pl.judge(name, maxl, tlevels, th, recs, required)
        st.update({"selected_pairs": len(sel), "judged": len(recs), "judge_tlc": jres.stats(),
                   "moves": {g: sum(1 for r in recs if r["g"] == g) for g in ("exchange", "shift", "rot", "refl")},
                   "class_changing_moves": sum(1 for r in recs if r["g"] in ("rot", "refl") and
                                               sh.space_rel(tuple(r["te2"]), tuple(r["tr2"])) != r["cls"][0])})
        report(ctx, name, recs, bad, missing, jres, lambda clause, r: "%s:%s:%s" % (clause, r["g"], r["cls"][0]), maxl, tlevels)
        total += len(recs)
        cells |= {(name,) + q for q in required}
        if recs and len(samples) < 3:
            samples.append(recs[len(recs) // 2])
        stats.append(st)
        ctx.log("curve %s" % st)
    ctx.cov = {"evaluations": total, "distinct_nontrivial": len(cells),
               "rule": "causal pairs enumerated by Panels.tla stratified by class; group elements: exchange of space intervals, dyadic common time shift (bitwise), "
                       "quarter turns / reflection of the squares, dyadic rotations / reflection of the circle (1e-7 sqrt(D D)); L-shape: exchange and shift only",
               "samples": samples, "per_curve": stats}
    ctx.assumptions = ["moved elements are concretised by real bisection (they exist as leaves of a symmetrically refined mesh)"]
    return ctx.finish()


def move(sh, g, s, te, tr):
    def ok(e):
        if not (0 <= e[2] < e[3] <= sh.L):
            return False
        try:
            sh.piece(e)
        except ValueError:
            return False
        return True
    if g == "exchange":
        a, b = (te[0], te[1], tr[2], tr[3]), (tr[0], tr[1], te[2], te[3])
    elif g == "shift":
        a, b = (te[0] + s, te[1] + s, te[2], te[3]), (tr[0] + s, tr[1] + s, tr[2], tr[3])
    elif g == "rot":
        def r(e):
            x = (e[2] + s) % sh.L
            return (e[0], e[1], x, x + e[3] - e[2])
        a, b = r(te), r(tr)
    else:
        a, b = (te[0], te[1], sh.L - te[3], sh.L - te[2]), (tr[0], tr[1], sh.L - tr[3], sh.L - tr[2])
    if not (ok(a) and ok(b)):
        return None, None
    return a, b


def run(prop, tier, seed):
    return {"C04": run_c04, "C11": run_c11, "C12": run_c12}[prop](prop, tier, seed)
