"""C02 (tiling / minimal 1-irregular closure / bookkeeping) and C10 (edge neighbours).

Three parts, all with TLC as the judge (DESIGN §5 C02, C10):
  A. exhaustive: TLC explores STMesh within a primitive-bisection budget on a family of root
     layouts, checking all invariants; the labelled state graph is dumped and compared, state
     for state and edge for edge, with the graph obtained by driving the real Mesh through the
     same alphabet (bounded bisimulation); every real state is *measured* (neighbour lists,
     flags, bookkeeping) and the measurements are judged by TLC (TraceSTMesh).
  B. ordered / code-shaped: the same without the VIEW, so the leaf order of the real
     OrderedDict must equal the model's `order` (diagnostic) and the compound operations are
     exercised from every ordered state.
  C. long random histories of the real code far beyond the bound, judged by TraceSTMesh.
"""
import os
import random
import time

from .. import explore_mesh as ex
from .. import meshlib as ml
from .. import record_mesh as rm
from .. import tlc
from ..common import Ctx

C02_CLAUSES = {"dyadic-descent", "duplicate-leaves", "tiling", "one-irregular", "closure", "uniform",
               "uniform-space", "only-refines", "call-failed", "levels", "parent-chain",
               "leaf-bookkeeping", "index-unique", "vertex-unique", "gmsh-consistent", "dorfler-closure"}
C10_CLAUSES = {"nbr", "nbr-at-most-two", "nbr-flag", "nbr-boundary-empty"}

CFG_A = """CONSTANTS Nt = %(Nt)d Nx = %(Nx)d Glue = %(Glue)s MaxL = %(MaxL)d Budget = %(Budget)d
  Ops = %(Ops)s SortSpace = TRUE GradeSkip = TRUE P = 4 CTn = 4 CSn = 4
SPECIFICATION Spec
%(View)s
CHECK_DEADLOCK FALSE
INVARIANT DyadicDescent
INVARIANT Tiles
INVARIANT NoDuplicates
INVARIANT OneIrregular
INVARIANT AtMostTwoNbrs
INVARIANT NbrSymmetric
INVARIANT BoundaryNoNbr
INVARIANT NoErr
INVARIANT ClosureAgrees
PROPERTY OnlyRefines
PROPERTY StrictProgress
PROPERTY BisectIsClosure
PROPERTY BothIsClosure
PROPERTY UniformIsUniform
PROPERTY USpaceIsUniform
"""

# (Nt, Nx, glue, budget_quick, budget_thorough)
FAMILY_A = [
    (1, 1, False, 4, 7), (1, 1, True, 4, 7), (1, 2, True, 4, 6), (1, 3, True, 4, 6),
    (1, 4, True, 3, 5), (2, 2, False, 3, 5), (2, 3, True, 2, 4), (3, 1, False, 3, 6), (2, 1, True, 4, 6),
]
FAMILY_B = [
    (1, 1, True, 3, 5), (1, 3, True, 3, 4), (2, 2, False, 2, 3), (1, 2, False, 3, 5),
]
OPS_A = ["bisect", "both", "uniform", "uspace"]


def _ops_tla(ops):
    return "{" + ", ".join('"%s"' % o for o in ops) + "}"


def exhaustive(ctx, prop, lay_spec, budget, ordered, ops):
    """One layout: TLC model run + dump, real exploration, graph comparison, TLC-judged
    measurements.  Returns stats dict."""
    Nt, Nx, glue = lay_spec
    maxl = budget + 2
    lay = ml.Layout.uniform(Nt, Nx, glue, maxl)
    tag = "%s-b%d-%s" % (lay.key(), budget, "ord" if ordered else "view")
    dot = os.path.join(tlc._scratch(), "graph")
    cfg = CFG_A % {"Nt": Nt, "Nx": Nx, "Glue": "TRUE" if glue else "FALSE", "MaxL": maxl,
                   "Budget": budget, "Ops": _ops_tla(ops), "View": "" if ordered else "VIEW View"}
    res = tlc.run_tlc("STMesh", cfg, timeout=3000, coverage=False, extra=["-dump", "dot", dot])
    st = {"layout": tag, "tlc": res.stats()}
    if res.machinery_error:
        ctx.machinery_error("%s: %s" % (tag, res.machinery_error))
        return st
    if not res.ok:
        # the *model* violates one of its own invariants: a design-level counterexample
        ctx.violation("model:%s:%s" % (tag, res.violated),
                      "STMesh violates %s on layout %s (model-level counterexample)" % (res.violated, tag),
                      {"layout": lay_spec, "budget": budget, "tlc_output_tail": res.output[-3000:]})
        return st
    nodes, sedges = ex.read_dot(dot + ".dot", ordered=ordered)
    import shutil
    shutil.rmtree(os.path.dirname(dot), ignore_errors=True)
    S_spec = {v[0] for v in nodes.values()}
    # real code
    g = ex.explore(lay, set(ops), budget, ordered=ordered)
    S_code = set(g["states"])
    st.update({"spec_states": len(S_spec), "code_states": len(S_code), "spec_edges": len(sedges),
               "code_edges": len(g["edges"])})
    # a history that had succeeded fails when replayed on a fresh mesh object later in the same process: state outlives the
    # mesh objects (for C10: neighbour lists handed out earlier and extended by their caller)
    for path, exc in g.get("replay_fails", [])[:3]:
        ctx.violation("call-failed:replay" if prop == "C02" else "nbr:answers-share-state",
                      "replaying history %r on a fresh mesh raised %s after earlier meshes of this process had been queried (lists returned by "
                      "neighbour_elements() are extended by their caller)" % (path, exc), {"layout": lay_spec, "maxl": maxl, "ops": list(path), "exc": exc})
    # failures of real calls
    for path, op, exc in g["fails"]:
        if prop == "C02":
            ctx.violation("%s:%s" % (op[0], exc.split(":")[0] if exc.startswith("Assertion") else exc),
                          "%s raised %s after history %r on layout %s" % (op[0], exc, path, lay.key()),
                          {"layout": lay_spec, "maxl": maxl, "ops": list(path) + [op], "exc": exc})
    # graph comparison (verdict for C02: the reachable leaf sets and transitions are exactly the
    # specification's; in ordered mode a pure order difference is only drift)
    if S_spec != S_code or sedges != g["edges"]:
        only_spec = S_spec - S_code
        only_code = S_code - S_spec
        if ordered:
            fs_spec = {frozenset(s) for s in S_spec}
            fs_code = {frozenset(s) for s in S_code}
            if fs_spec == fs_code or g["fails"]:
                ctx.spec_drift("%s: leaf order of the real mesh differs from the model's (%d/%d ordered states unmatched)"
                               % (tag, len(only_spec), len(only_code)))
            elif prop == "C02":
                _graph_violation(ctx, lay_spec, maxl, tag, g, only_spec, only_code)
        elif not g["fails"] or only_code:
            if prop == "C02":
                _graph_violation(ctx, lay_spec, maxl, tag, g, only_spec, only_code, sedges)
    # marking transitions judged with their own marked sets (the unlabelled graph cannot tell two markings apart that
    # lead from one mesh to the same pair of meshes): result == DorflerDecl(pre, Mt, Ms)
    lab = g.get("labelled", [])
    if lab and prop == "C02":
        if len(lab) > 1200:
            random.Random(len(lab)).shuffle(lab)
            lab = lab[:1200]
        evs, meta = [], []
        for pre, op, post in lab:
            evs.append({"k": "reset", "exc": "", "post": [list(k) for k in pre]})
            meta.append(None)
            evs.append({"k": "dorfler", "exc": "", "kind": "dorfler_iso" if op[0] == "mark_iso" else "dorfler_aniso", "theta": 0.5,
                        "mt": [list(k) for k in op[1]], "ms": [list(k) for k in (op[2] if op[0] == "mark_aniso" else op[1])], "post": [list(k) for k in post]})
            meta.append((pre, op))
        badl, jl = rm.judge(lay, evs, timeout=3000)
        st["labelled_marking_transitions_judged"] = len(lab)
        if jl.machinery_error:
            ctx.machinery_error("%s labelled transitions: %s" % (tag, jl.machinery_error))
        else:
            for l, clause in badl:
                if meta[l - 1] is not None and clause in C02_CLAUSES:
                    pre, op = meta[l - 1]
                    ctx.violation("%s:%s-labelled" % (clause, tag), "clause %s fails for the marking %r applied to the mesh %r on %s" % (clause, op, pre, tag),
                                  {"layout": lay_spec, "maxl": maxl, "pre_state": [list(k) for k in pre], "op": [op[0]] + [[list(k) for k in x] for x in op[1:]]})
    # python-side judgement of the measurements (cross-check of the TLC judge below)
    py_bad = 0
    for path, probs in g["problems"]:
        for clause, text in probs:
            py_bad += 1
    # measurements judged by TLC
    events = []
    index = []
    for sid, (path, order) in g["states"].items():
        ev = g["events"].get(sid)
        if ev is None:
            ctx.machinery_error("%s: state without measurement after %r" % (tag, path))
            continue
        events.append(ev)
        index.append(path)
    for path, probs in g["problems"]:
        for clause, text in probs:
            if clause == "dyadic-descent" and prop == "C02":
                ctx.violation("dyadic-descent:" + tag, text, {"layout": lay_spec, "maxl": maxl, "ops": list(path)})
    bad, jres = rm.judge(lay, events, timeout=3000)
    st["judged_states"] = len(events)
    st["judge_tlc"] = jres.stats()
    if jres.machinery_error:
        ctx.machinery_error("%s judge: %s" % (tag, jres.machinery_error))
    else:
        tlc_bad = 0
        for l, clause in bad:
            tlc_bad += 1
            _report_clause(ctx, prop, clause, lay_spec, maxl, index[l - 1], None, tag)
        if (tlc_bad == 0) != (py_bad == 0):
            ctx.machinery_error("%s: TLC judge (%d) and python cross-check (%d) disagree" % (tag, tlc_bad, py_bad))
    st["sample_state"] = [list(k) for k in next(iter(g["states"].values()))[1]] if g["states"] else []
    return st


def _graph_violation(ctx, lay_spec, maxl, tag, g, only_spec, only_code, sedges=None):
    if only_code:
        sid = next(iter(only_code))
        path = g["states"][sid][0]
        ctx.violation("closure:graph:" + tag,
                      "real mesh reaches a leaf set the specification does not (history %r)" % (path,),
                      {"layout": lay_spec, "maxl": maxl, "ops": list(path), "post": sorted(map(list, sid))})
    elif only_spec:
        ctx.violation("closure:graph:" + tag,
                      "specification reaches %d leaf sets the real mesh does not" % len(only_spec),
                      {"layout": lay_spec, "maxl": maxl, "spec_only_sample": sorted(map(list, next(iter(only_spec))))})
    else:
        ctx.violation("closure:graph-edges:" + tag, "transition sets differ", {"layout": lay_spec, "maxl": maxl})


def _report_clause(ctx, prop, clause, lay_spec, maxl, path, ev, tag):
    if clause.startswith("d:"):
        ctx.spec_drift("%s: %s after %r" % (tag, clause, path))
        return
    mine = C02_CLAUSES if prop == "C02" else C10_CLAUSES
    if clause in mine:
        ctx.violation("%s:%s" % (clause, tag), "clause %s fails after history %r on %s" % (clause, path, tag),
                      {"layout": lay_spec, "maxl": maxl, "ops": list(path), "clause": clause, "event": ev})


def random_traces(ctx, prop, tier, seed):
    rng = random.Random(seed * 7919 + 17)
    lays = [(1, 1, False), (1, 1, True), (1, 3, True), (1, 4, True), (2, 2, False), (2, 3, True), (3, 1, False), (1, 6, True)]
    n_hist, steps, cap = (2, 45, 70) if tier == "quick" else (12, 150, 220)
    total_events, total_traces, samples, stats = 0, 0, [], []
    for (Nt, Nx, glue) in lays:
        maxl = 12
        # non-uniform rational grids: the projection is by dyadic descent inside each root
        from fractions import Fraction as F
        tg = [F(0)]
        for j in range(Nt):
            tg.append(tg[-1] + F(rng.choice([1, 2, 3, 5]), rng.choice([1, 2, 4, 7])))
        xg = [F(0)]
        for i in range(Nx):
            xg.append(xg[-1] + F(rng.choice([1, 2, 3]), rng.choice([1, 3, 4])))
        lay = ml.Layout(tg, xg, glue, maxl)
        events, starts = [], []
        for h in range(n_hist):
            bias = [0.2, 0.5, 0.8][h % 3]
            starts.append(len(events))
            events += rm.random_history(lay, rng, steps, bias_space=bias, max_leaves=cap,
                                        compound=0.03 if h % 2 else 0.0, companions=0.15 if h % 2 == 0 else 0.0)
        # float grids as used by the driver (dyadic floats are exact)
        layf = ml.Layout([float(t) for t in range(Nt + 1)], [0.5 * i for i in range(Nx + 1)], glue, maxl)
        starts.append(len(events))
        events += rm.random_history(layf, rng, steps, bias_space=0.5, max_leaves=cap, companions=0.2)
        bad, jres = rm.judge(lay, events, timeout=3000)
        total_events += len(events)
        total_traces += len(starts)
        stats.append({"layout": lay.key(), "events": len(events), "tlc": jres.stats(),
                      "max_leaves": max(len(e["post"]) for e in events)})
        if jres.machinery_error:
            ctx.machinery_error("random traces %s: %s" % (lay.key(), jres.machinery_error))
            continue
        for l, clause in bad:
            # reconstruct the history of the failing event
            s0 = max(s for s in starts if s <= l - 1)
            hist = [_op_of(e) for e in events[s0 + 1:l]]
            _report_clause(ctx, prop, clause, ("grid", [str(t) for t in lay.tgrid], [str(x) for x in lay.xgrid], glue),
                           maxl, hist, events[l - 1] if len(events[l - 1]["post"]) < 40 else None,
                           "trace-" + lay.key())
        if not samples:
            samples = [{"k": e["k"], "e": e.get("e"), "ax": e.get("ax"), "n_leaves": len(e["post"])} for e in events[1:6]]
    return {"events": total_events, "traces": total_traces, "per_layout": stats, "samples": samples}


def _op_of(e):
    if e["k"] == "bisect":
        return ("bisect", tuple(e["e"]), e["ax"])
    if e["k"] == "both":
        return ("both", tuple(e["e"]))
    return (e["k"],)


CFG_MIN = """CONSTANTS Nt = %(Nt)d Nx = %(Nx)d Glue = %(Glue)s MaxL = 4 Budget = %(Budget)d
  Ops = {"bisect"} SortSpace = TRUE GradeSkip = TRUE P = 4 CTn = 4 CSn = 4
SPECIFICATION Spec
VIEW View
CHECK_DEADLOCK FALSE
INVARIANT %(Inv)s
"""


def minimality(ctx, tier):
    """'smallest refinement': least among refinements along the requested axis, and of least cardinality among all
    1-irregular refinements containing the bisection (free refinements by up to 3 bisections); the literal reading over
    all refinements is false at the design level and is run as a diagnostic that must be violated."""
    out = []
    plan = [(1, 2, False, 1), (1, 2, True, 1)] if tier == "quick" else [(1, 2, False, 2), (1, 2, True, 2), (2, 1, False, 2), (1, 3, True, 1)]
    for Nt, Nx, glue, b in plan:
        for inv in ("MinimalAx", "MinimalCard"):
            res = tlc.run_tlc("STMesh", CFG_MIN % {"Nt": Nt, "Nx": Nx, "Glue": "TRUE" if glue else "FALSE", "Budget": b, "Inv": inv}, timeout=3000)
            out.append({"layout": "%dx%d%s" % (Nt, Nx, "g" if glue else "o"), "budget": b, "invariant": inv, "tlc": res.stats(), "holds": res.ok})
            if res.machinery_error:
                ctx.machinery_error("minimality %s: %s" % (inv, res.machinery_error))
            elif not res.ok:
                ctx.violation("model:STMesh:%s" % inv, "STMesh violates %s (the closure is not the smallest refinement)" % inv, {"tlc_output_tail": res.output[-2500:]})
    res = tlc.run_tlc("STMesh", CFG_MIN % {"Nt": 1, "Nx": 2, "Glue": "FALSE", "Budget": 1, "Inv": "MinimalLiteral"}, timeout=3000)
    out.append({"layout": "1x2o", "budget": 1, "invariant": "MinimalLiteral (diagnostic, must be violated)", "violated": bool(res.violated)})
    if not res.violated and not res.machinery_error:
        ctx.spec_drift("MinimalLiteral unexpectedly holds")
    return out


def binding_selftest(ctx):
    """Corrupt one recorded field / drop one leaf: the judge must reject (DESIGN §4.6)."""
    lay = ml.Layout.uniform(1, 3, True, 8)
    rng = random.Random(5)
    ev = rm.random_history(lay, rng, 12)
    import copy
    out = {}
    a = copy.deepcopy(ev)
    a[6]["post"] = a[6]["post"][:-1]                       # a leaf dropped from a post-state
    bad, r = rm.judge(lay, a)
    out["dropped_leaf_rejected"] = bool(bad) and any(c in ("tiling", "closure") for _, c in bad)
    b = copy.deepcopy(ev)
    k = next(i for i, e in enumerate(b) if any(len(s) for row in e["nb"] for s in row))
    row = next(r_ for r_ in b[k]["nb"] if any(len(s) for s in r_))
    s = next(s_ for s_ in row if len(s_))
    s[0] = s[0] % len(b[k]["post"]) + 1                     # a neighbour index changed
    bad, r = rm.judge(lay, b)
    out["wrong_neighbour_rejected"] = bool(bad) and any(c == "nbr" for _, c in bad)
    c = copy.deepcopy(ev)
    c[3]["book"]["index-unique"] = False
    bad, r = rm.judge(lay, c)
    out["bookkeeping_flag_rejected"] = bool(bad) and any(cl == "index-unique" for _, cl in bad)
    bad, r = rm.judge(lay, ev)
    out["uncorrupted_accepted"] = bad == []
    if not all(out.values()):
        ctx.machinery_error("binding self-test failed: %r" % out)
    return out


def run(prop, tier, seed):
    ctx = Ctx(prop, tier, seed)
    stats_a, stats_b = [], []
    states = transitions = judged = 0
    for (Nt, Nx, glue, bq, bt) in FAMILY_A:
        b = bq if tier == "quick" else bt
        st = exhaustive(ctx, prop, (Nt, Nx, glue), b, False, OPS_A)
        stats_a.append(st)
        states += st["tlc"]["distinct"]
        transitions += st["tlc"]["generated"]
        judged += st.get("judged_states", 0)
        ctx.log("A %s" % st)
    for (Nt, Nx, glue, bq, bt) in (FAMILY_B if prop == "C02" else []):
        b = bq if tier == "quick" else bt
        st = exhaustive(ctx, prop, (Nt, Nx, glue), b, True, OPS_A)
        stats_b.append(st)
        states += st["tlc"]["distinct"]
        transitions += st["tlc"]["generated"]
        judged += st.get("judged_states", 0)
        ctx.log("B %s" % st)
    stats_c = []
    if prop == "C02":
        # marking-driven refinement belongs to C02's operation alphabet too: the Doerfler actions of
        # STMesh from every small mesh and every pair of marked sets, against the real calls
        from . import dorfler_check as dc
        for lay_spec, b in ([((1, 3, True), 2), ((1, 2, False), 2)] if tier == "quick" else
                            [((1, 3, True), 3), ((1, 2, False), 3), ((2, 2, False), 2)]):
            st = dc.refinement_model(ctx, lay_spec, b, False, False)
            stats_c.append(st)
            states += st["tlc"]["distinct"]
            transitions += st["tlc"]["generated"]
            ctx.log("C %s" % st)
    minimal = []
    if prop == "C02":
        minimal = minimality(ctx, tier)
    tr = random_traces(ctx, prop, tier, seed)
    drv = None
    if prop == "C02":
        # the unmodified driver's own refinement calls: every resulting mesh is a 1-irregular dyadic tiling
        from .. import loop_lib
        drv = loop_lib.driver_block(ctx, [("Dirichlet", "PiSquare", 0, "uniform", "sobolev", 0, 2),
                                          ("MildSingular", "UnitSquare", 0, "anisotropic", "sobolev", 1, 2 if tier == "quick" else 3)],
                                    {"uniform", "dorfler", "grade"}, C02_CLAUSES - {"dorfler-closure"})
        ctx.log("driver %s" % drv)
    ctx.log("traces %s" % {k: v for k, v in tr.items() if k != "per_layout"})
    try:
        selftest = binding_selftest(ctx)
    except Exception as ex:       # (on a broken tree the self-test's own short history may not get far enough)
        selftest = {"error": repr(ex)[:200]}
        ctx.machinery_error("binding self-test could not run: %r" % (ex,))
    ctx.cov = {
        "states": states, "transitions": transitions,
        "traces_validated_against_impl": judged + tr["traces"],
        "samples": [{"exhaustive_layout": stats_a[0]}, {"random_trace_events": tr["samples"]}],
        "exhaustive": True,
        "minimality_models": minimal, "exhaustive_view": stats_a, "exhaustive_ordered": stats_b, "exhaustive_doerfler_actions": stats_c,
        "random_traces": tr, "binding_selftest": selftest, "driver_runs": drv,
        "rule": "every state reachable within the stated primitive-bisection budget from each root layout "
                "(operations: bisect time/space, both, uniform, uniform space), TLC graph == real-code graph; "
                "plus random histories judged by TraceSTMesh",
    }
    ctx.assumptions = [
        "exhaustiveness is within the stated budgets per layout; beyond them the evidence is random traces",
        "the projection locates leaves by their coordinates through the same midpoint rule (p+q)/2 the code uses",
        "TLC (tla2tools 1.8.0) evaluates the specification correctly",
    ]
    return ctx.finish()
