"""C15: derived quadrature schemes preserve measure and polynomial exactness.

Schemes.tla defines the term language (base rule, mirror, tensor products, 2-D Duffy, the two 3-D
Duffy schemes, mirrors in every coordinate) and the degree calculus; TLC enumerates all terms over
the base rules.  Every term is built with the real constructors, mapped to a random box, and every
monomial up to the promised total degree is integrated and compared with the exact value; TLC
(TraceSchemes) recomputes dimension and degree from the term, judges each deviation and counts the
(term, monomial) pairs that were never exercised.
"""
import itertools
import json
import math
import os
import random
import re
import shutil
import tempfile
from fractions import Fraction as F

import numpy as np

from .. import rules_lib as rl
from .. import tlc
from ..common import Ctx, setup_path
from ..judge import dev

MC = """---- MODULE %s ----
EXTENDS %s
BaseDef == %s
====
"""
CFG = "CONSTANTS BaseRules <- BaseDef\nSPECIFICATION Spec\nINVARIANT DegreeSane\nCHECK_DEADLOCK FALSE\n"
CFG_T = "CONSTANTS BaseRules <- BaseDef\nSPECIFICATION TSpec\nINVARIANT Report\nPOSTCONDITION Done\nCHECK_DEADLOCK FALSE\n"


def base_tla(bases):
    return "{" + ", ".join('[fam |-> "%s", key |-> <<%s>>, deg |-> %d]' % (b["fam"], ", ".join(map(str, b["key"])), b["deg"]) for b in bases) + "}"


def make_base(b):
    from src import quadrature as q
    fam, key = b["fam"], b["key"]
    if fam == "gauss":
        return q.gauss_quadrature_scheme(key[0])
    return {"log": q.log_quadrature_scheme, "loglog": q.log_log_quadrature_scheme, "sqrt": q.sqrt_quadrature_scheme,
            "sqrtinv": q.sqrtinv_quadrature_scheme}[fam](*key)


def build(t):
    from src import quadrature as q
    op = t["op"]
    if op == "base":
        return make_base(t)
    if op == "mirror":
        return build(t["arg"]).mirror()
    if op == "product2":
        return q.ProductScheme2D(build(t["a"]), build(t["b"]))
    if op == "product3":
        return q.ProductScheme3D(build(t["a"]))
    if op == "mirror_x":
        return build(t["arg"]).mirror_x()
    if op == "mirror_y":
        return build(t["arg"]).mirror_y()
    if op == "mirror_z":
        return build(t["arg"]).mirror_z()
    if op == "duffy2":
        return q.DuffyScheme2D(build(t["arg"]), symmetric=t["sym"])
    if op == "duffy_id3":
        return q.DuffySchemeIdentical3D(build(t["arg"]), symmetric_xy=t["sym"])
    if op == "duffy_touch3":
        return q.DuffySchemeTouch3D(build(t["arg"]))
    raise ValueError(op)


def apply_top(t, args):
    """the top constructor of term t applied to already built argument objects"""
    from src import quadrature as q
    op = t["op"]
    a = args[0]
    if op == "mirror":
        return a.mirror()
    if op == "product2":
        return q.ProductScheme2D(a, args[1])
    if op == "product3":
        return q.ProductScheme3D(a)
    if op in ("mirror_x", "mirror_y", "mirror_z"):
        return getattr(a, op)()
    if op == "duffy2":
        return q.DuffyScheme2D(a, symmetric=t["sym"])
    if op == "duffy_id3":
        return q.DuffySchemeIdentical3D(a, symmetric_xy=t["sym"])
    if op == "duffy_touch3":
        return q.DuffySchemeTouch3D(a)
    raise ValueError(op)


def arg_terms(t):
    return [t["a"], t["b"]] if t["op"] == "product2" else [t["a"]] if t["op"] == "product3" else [t["arg"]]


def snapshot(s):
    return (np.array(s.points, dtype=float, copy=True), np.array(s.weights, dtype=float, copy=True))


def same(a, b):
    return a[0].shape == b[0].shape and a[1].shape == b[1].shape and np.array_equal(a[0], b[0]) and np.array_equal(a[1], b[1])


def dim(t):
    op = t["op"]
    if op in ("base", "mirror"):
        return 1
    if op in ("product2", "duffy2"):
        return 2
    if op in ("product3", "duffy_id3", "duffy_touch3"):
        return 3
    return dim(t["arg"])


def deg(t):
    op = t["op"]
    if op == "base":
        return t["deg"]
    if op in ("mirror", "mirror_x", "mirror_y", "mirror_z"):
        return deg(t["arg"])
    if op == "product2":
        return min(deg(t["a"]), deg(t["b"]))
    if op == "product3":
        return deg(t["a"])
    if op == "duffy2":
        return deg(t["arg"]) - 1
    return deg(t["arg"]) - 2


def needs_sym(t):
    return t["op"] in ("duffy2", "duffy_id3") and t["sym"]


def has3duffy(t):
    return t["op"] in ("duffy_id3", "duffy_touch3") or (t["op"].startswith("mirror_") and has3duffy(t["arg"]))


def terms(bases):
    B1 = [dict(op="base", fam=b["fam"], key=list(b["key"]), deg=b["deg"]) for b in bases]
    M = lambda t: dict(op="mirror", arg=t)
    T1 = B1 + [M(b) for b in B1]
    T2p = [dict(op="product2", a=s, b=s) for s in T1] + [dict(op="product2", a=s, b=M(s)) for s in B1]
    mx = lambda t: dict(op="mirror_x", arg=t)
    my = lambda t: dict(op="mirror_y", arg=t)
    mz = lambda t: dict(op="mirror_z", arg=t)
    T2 = T2p + [mx(t) for t in T2p] + [my(t) for t in T2p] + [mx(my(t)) for t in T2p]
    T2d = [dict(op="duffy2", sym=s, arg=dict(op="product2", a=b, b=b)) for b in B1 for s in (True, False)]
    T2dm = T2d + [mx(t) for t in T2d if not t["sym"]] + [my(t) for t in T2d if not t["sym"]]
    T3p = [dict(op="product3", a=b) for b in B1]
    T3 = T3p + [mx(t) for t in T3p] + [my(t) for t in T3p] + [mz(t) for t in T3p] + \
        [dict(op="duffy_id3", sym=s, arg=t) for t in T3p for s in (True, False)] + [dict(op="duffy_touch3", arg=t) for t in T3p] + \
        [mz(dict(op="duffy_touch3", arg=t)) for t in T3p] + [mx(dict(op="duffy_id3", sym=False, arg=t)) for t in T3p]
    return T1 + T2 + T2dm + T3


def exact_mono(exps, box):
    v = 1.0
    for e, (a, b) in zip(exps, box):
        v *= float((F(b) ** (e + 1) - F(a) ** (e + 1)) / (e + 1))
    return v


def scale_mono(exps, box):
    v = 1.0
    for e, (a, b) in zip(exps, box):
        m = max(abs(a), abs(b))
        v *= float(F(m) ** (e + 1) / (e + 1)) if m > 0 else 1.0
    # measure-relative scale: the box may be far smaller than its distance to the origin
    w = 1.0
    for (a, b) in box:
        w *= float(b - a)
    return max(v * 0 + abs(exact_mono(exps, box)), w * np.prod([max(abs(a), abs(b)) ** e for e, (a, b) in zip(exps, box)]))


def integrate(s, d, f, box):
    flat = [float(x) for ab in box for x in ab]
    return s.integrate(f, *flat)


def run(prop, tier, seed):
    setup_path()
    ctx = Ctx("C15", tier, seed)
    rng = random.Random(seed + 15)
    quick = tier == "quick"
    rules, exports = rl.extract()
    # base rules: unweighted families with a polynomial part, degree = N_poly; Gauss-Legendre orders
    allb = [{"fam": f, "key": list(k), "deg": k[0]} for (f, k) in sorted(rules) if f in ("log", "loglog", "sqrt", "sqrtinv") and k[0] >= 0]
    allb += [{"fam": "gauss", "key": [n], "deg": n} for n in (1, 3, 5, 7, 11, 15, 23)]
    if quick:
        pick = {("log", (1, 1)), ("log", (3, 3)), ("log", (12, 12)), ("loglog", (3, 2)), ("sqrt", (3, 3)), ("sqrtinv", (2, 2)), ("gauss", (1,)), ("gauss", (5,)), ("gauss", (11,)), ("log", (7, 3))}
        bases = [b for b in allb if (b["fam"], tuple(b["key"])) in pick]
    else:
        bases = allb
    btla = base_tla(bases)
    res = tlc.run_tlc("MCSchemes", CFG, timeout=1200, aux_files={"MCSchemes.tla": MC % ("MCSchemes", "Schemes", btla)})
    model = {"tlc": res.stats(), "base_rules": len(bases)}
    if res.machinery_error:
        ctx.machinery_error("Schemes.tla: " + res.machinery_error)
    elif not res.ok:
        ctx.violation("model:Schemes:%s" % res.violated, "Schemes.tla violates %s" % res.violated, {})
    T = terms(bases)
    if res.ok and res.distinct != len({json.dumps(t, sort_keys=True) for t in T}):
        ctx.machinery_error("python mirror enumerates %d terms, Schemes.tla %d" % (len(T), res.distinct))
    recs = []
    worst = {}
    for t in T:
        d, g = dim(t), deg(t)
        try:
            s = build(t)
        except Exception as ex:
            ctx.violation("constructor-failed:%s" % t["op"], "building %r failed: %r" % (t, ex), {"term": t})
            continue
        box = []
        for _ in range(d):
            side = 10 ** rng.uniform(-4, 3)
            a = rng.choice([0.0, -side / 3, rng.uniform(-2, 2) * side, rng.uniform(-1, 1)])
            box.append((F(a), F(a) + F(side)))
        if needs_sym(t):
            box[1] = box[0]       # symmetric variants: integrand symmetric in the first two coordinates of the box
        meas = float(np.prod([float(b - a) for a, b in box]))
        tol = 1e-10 if has3duffy(t) else 1e-12
        sumw = float(np.sum(s.weights)) * meas
        if g < 0:
            continue      # the calculus promises nothing (not even constants) below degree 0
        recs.append({"k": "measure", "term": t, "dev": dev(sumw, meas, tol * meas * 10)})
        if d == 1:
            monos = [(i,) for i in range(g + 1)]
        elif d == 2:
            monos = [(i, j) for i in range(g + 1) for j in range(g + 1 - i)]
        else:
            monos = [(i, j, k) for i in range(g + 1) for j in range(g + 1 - i) for k in range(g + 1 - i - j)]
        for m in monos:
            if needs_sym(t):
                if m[0] > m[1]:
                    continue
                m2 = (m[1], m[0]) + tuple(m[2:])
                f = (lambda m, m2: lambda x: np.prod([x[i] ** e for i, e in enumerate(m)], axis=0) + np.prod([x[i] ** e for i, e in enumerate(m2)], axis=0))(m, m2)
                ex = exact_mono(m, box) + exact_mono(m2, box)
                sc = scale_mono(m, box) + scale_mono(m2, box)
            else:
                f = (lambda m: lambda x: np.prod([x[i] ** e for i, e in enumerate(m)], axis=0))(m) if d > 1 else (lambda m: lambda x: x ** m[0])(m)
                ex = exact_mono(m, box)
                sc = scale_mono(m, box)
            v = integrate(s, d, f, box)
            dv = dev(v, ex, tol * sc)
            recs.append({"k": "mono", "term": t, "dim": d, "deg": g, "mono": list(m), "dev": dv})
            worst[t["op"]] = max(worst.get(t["op"], 0), dv)
    # laws
    from src import quadrature as q
    # a mirror really is the reflection of its argument in the named coordinate (and only in that one)
    for t in T:
        if not t["op"].startswith("mirror"):
            continue
        try:
            sm, sa = build(t), build(t["arg"])
        except Exception:
            continue
        P, A = np.atleast_2d(sm.points), np.atleast_2d(sa.points)
        ax = {"mirror": 0, "mirror_x": 0, "mirror_y": 1, "mirror_z": 2}[t["op"]]
        exp = A.copy()
        exp[ax] = 1 - A[ax]
        d = float(np.max(np.abs(P - exp))) if P.shape == exp.shape else 1.0
        wdiff = float(np.max(np.abs(np.asarray(sm.weights) - np.asarray(sa.weights)))) if np.shape(sm.weights) == np.shape(sa.weights) else 1.0
        recs.append({"k": "law", "law": "mirror-is-not-the-reflection", "dev": dev(max(d, wdiff), 0.0, 1e-15), "term": t})
    # the mirrors of ONE scheme object do not depend on the order in which they are asked for, nor on having been asked
    # before (each mirror keeps its own memo): every order of the 2 / 3 mirror calls on a freshly built object, each
    # call made twice, must return the reflection of that object in the named coordinate (round 5, seed C15-9)
    import itertools
    for t in T:
        d0 = dim(t)
        if d0 < 2 or t["op"].startswith("mirror") or t["op"] == "base":
            continue
        names = ["mirror_x", "mirror_y", "mirror_z"][:d0]
        bad, worst_case = 0, None
        for order in itertools.permutations(names):
            try:
                s0 = build(t)
            except Exception:
                break
            A = np.array(s0.points, dtype=float, copy=True)
            W = np.array(s0.weights, dtype=float, copy=True)
            for n in list(order) + list(order):
                m = getattr(s0, n)()
                ax = {"mirror_x": 0, "mirror_y": 1, "mirror_z": 2}[n]
                exp = A.copy()
                exp[ax] = 1 - A[ax]
                P = np.array(m.points, dtype=float)
                if P.shape != exp.shape or float(np.max(np.abs(P - exp))) > 1e-15 or not np.array_equal(np.asarray(m.weights, dtype=float), W):
                    bad, worst_case = 1, worst_case or "%s in order %s" % (n, ",".join(order))
            if not same(snapshot(s0), (A, W)):
                bad, worst_case = 1, worst_case or "object itself changed after order %s" % ",".join(order)
        recs.append({"k": "law", "law": "mirror-depends-on-call-order", "dev": 10 ** 9 if bad else 0, "term": t, "case": worst_case or ""})
    # constructors are pure: building a derived scheme leaves the schemes it is built from unchanged, and a second
    # scheme built from the same argument objects equals the first (a base rule may be shared by many schemes)
    for t in T:
        if t["op"] == "base":
            continue
        try:
            args = [build(a) for a in arg_terms(t)]
            before = [snapshot(a) for a in args]
            first = snapshot(apply_top(t, args))
            after = [snapshot(a) for a in args]
            second = snapshot(apply_top(t, args))
        except Exception as ex:
            ctx.violation("constructor-failed:%s" % t["op"], "building %r from shared arguments failed: %r" % (t, ex), {"term": t})
            continue
        recs.append({"k": "law", "law": "constructor-changes-its-argument", "dev": 0 if all(same(x, y) for x, y in zip(before, after)) else 10 ** 9, "term": t})
        recs.append({"k": "law", "law": "second-scheme-from-same-argument-differs", "dev": 0 if same(first, second) else 10 ** 9, "term": t})
    # mapped 1-D rules on short intervals far from the origin (measure and first moments)
    for b in bases:
        for tterm in (dict(op="base", fam=b["fam"], key=list(b["key"]), deg=b["deg"]),):
            s1 = build(tterm)
            for a0, side in ((50.0, 1e-4), (1000.0, 1e-2), (-300.0, 2e-3), (1e3, 1e3)):
                side = (a0 + side) - a0        # the interval length as the floats give it
                v0 = s1.integrate(lambda x: 1.0 + 0 * x, a0, a0 + side)
                recs.append({"k": "law", "law": "far-interval-measure", "dev": dev(v0, side, 1e-12 * side), "term": tterm, "interval": [a0, a0 + side]})
                if b["deg"] >= 1:
                    v1 = s1.integrate(lambda x: x - a0, a0, a0 + side)
                    recs.append({"k": "law", "law": "far-interval-moment", "dev": dev(v1, side * side / 2, 1e-10 * side * side), "term": tterm, "interval": [a0, a0 + side]})
    for b in bases:
        s = make_base(b)
        mm = s.mirror().mirror()
        recs.append({"k": "law", "law": "mirror-twice-not-identity", "dev": dev(float(np.max(np.abs(mm.points - s.points))), 0.0, 1e-15)})
        p2 = q.ProductScheme2D(s)
        recs.append({"k": "law", "law": "mirror-twice-not-identity", "dev": dev(float(np.max(np.abs(p2.mirror_x().mirror_x().points - p2.points))), 0.0, 1e-15)})
        if b["deg"] >= 2:
            dn, ds = q.DuffyScheme2D(p2, symmetric=False), q.DuffyScheme2D(p2, symmetric=True)
            fsym = lambda x: (x[0] - x[1]) ** 2 + x[0] * x[1]
            recs.append({"k": "law", "law": "symmetric-duffy-disagrees", "dev": dev(ds.integrate(fsym, 0.0, 1.0, 0.0, 1.0), dn.integrate(fsym, 0.0, 1.0, 0.0, 1.0), 1e-12)})
    # convergence of the Duffy schemes on log-singular model integrands: int_0^1 int_0^1 log|x-y| = -3/2
    errs = []
    for p in range(1, 13):
        if ("log", (p, p)) in rules:
            s = q.DuffyScheme2D(q.ProductScheme2D(q.log_quadrature_scheme(p, p)), symmetric=False)
            with np.errstate(divide="ignore"):
                errs.append((p, abs(s.integrate(lambda x: np.log(np.abs(x[0] - x[1])), 0.0, 1.0, 0.0, 1.0) + 1.5)))
    mono_ok = all(e2 <= max(e1, 1e-13) * 1.0000001 for (_, e1), (_, e2) in zip(errs, errs[1:]))
    recs.append({"k": "law", "law": "duffy-convergence-not-monotone", "dev": 0 if mono_ok else 2_000_000})
    recs.append({"k": "law", "law": "duffy-does-not-converge", "dev": dev(errs[-1][1], 0.0, 1e-12)})
    # judge: one TLC run per group of base rules (the judge's `seen` set grows with the trace; a group carries the records of
    # its own terms and is checked for completeness against the term language over its own base rules)
    def base_of(t):
        while t.get("op") != "base":
            t = t["a"] if "a" in t else t["arg"]
        return (t["fam"], tuple(t["key"]))
    groups = {}
    order_b = [(b["fam"], tuple(b["key"])) for b in bases]
    per = 3 if len(bases) > 6 else len(bases)
    gid = {bk: i // per for i, bk in enumerate(order_b)}
    for i, r in enumerate(recs):
        g = gid[base_of(r["term"])] if isinstance(r.get("term"), dict) else 0
        groups.setdefault(g, []).append(i)

    def judge_group(g):
        idx = groups[g]
        gb = [b for b in bases if gid[(b["fam"], tuple(b["key"]))] == g]
        work = tempfile.mkdtemp(prefix="sch.", dir=tlc._scratch())
        path = os.path.join(work, "trace.json")
        with open(path, "w") as fh:
            json.dump([recs[i] for i in idx], fh)
        jr = tlc.run_tlc("MCTraceSchemes", CFG_T, workers=1, timeout=3000, env={"TRACE_FILE": path},
                         aux_files={"MCTraceSchemes.tla": MC % ("MCTraceSchemes", "TraceSchemes", base_tla(gb))})
        shutil.rmtree(work, ignore_errors=True)
        return g, idx, jr
    from concurrent.futures import ThreadPoolExecutor
    with ThreadPoolExecutor(max_workers=12) as ex:
        judged = list(ex.map(judge_group, sorted(groups)))
    jres = judged[0][2]
    jstats = {"groups": len(judged), "generated": sum(j.generated or 0 for _, _, j in judged), "wall_s_max": max(j.stats().get("wall_s", 0) for _, _, j in judged)}
    for g, idx, jr in judged:
        mm = re.search(r'<<\s*"BAD",\s*(\{.*?\}),\s*"MISSING",\s*(\d+)\s*>>', jr.output, flags=re.S)
        if not mm:
            ctx.machinery_error("TraceSchemes (group %d): %s" % (g, jr.machinery_error or jr.output[-400:]))
            continue
        for tpl in sorted(tlc.parse_value(mm.group(1))):
            l, clause = tpl[0], tpl[1]
            r = recs[idx[l - 1]]
            if clause.startswith("d:"):
                ctx.spec_drift("%s for %r" % (clause, r))
                continue
            op = r.get("term", {}).get("op", r.get("law"))
            inner = r.get("term", {})
            while isinstance(inner, dict) and "arg" in inner and inner["op"].startswith("mirror"):
                inner = inner["arg"]
            ctx.violation("%s:%s:%s" % (clause, op, inner.get("op", "") if isinstance(inner, dict) else ""),
                          "%s: %r" % (clause, {k: v for k, v in r.items()}), r)
        if int(mm.group(2)) > 0:
            ctx.machinery_error("%s (term, monomial) pairs never exercised (group %d)" % (mm.group(2), g))
    # self-test
    r2 = [dict(r) for r in recs[:30]]
    k = next(i for i, r in enumerate(r2) if r["k"] == "mono")
    r2[k]["dev"] = 9_000_000
    p2_ = os.path.join(tlc._scratch(), "s2.json")
    json.dump(r2, open(p2_, "w"))
    j2 = tlc.run_tlc("MCTraceSchemes", CFG_T, workers=1, timeout=900, env={"TRACE_FILE": p2_}, aux_files={"MCTraceSchemes.tla": MC % ("MCTraceSchemes", "TraceSchemes", btla)})
    os.remove(p2_)
    m2 = re.search(r'"MISSING",\s*(\d+)', j2.output)
    st_self = {"corrupted_dev_rejected": "monomial-not-exact" in j2.output, "dropped_records_counted_missing": bool(m2) and int(m2.group(1)) > 0}
    if not all(st_self.values()):
        ctx.machinery_error("binding self-test failed: %r" % st_self)
    ctx.cov = {"evaluations": len(recs), "distinct_nontrivial": len(T),
               "rule": "all terms of Schemes.tla over %d base rules (%s), each on a random box with side lengths in [1e-4, 1e3]; all monomials up to the calculus' degree "
                       "(symmetrised monomials for the symmetric Duffy variants); laws: mirror twice, symmetric vs non-symmetric Duffy, convergence on log|x-y|; distinct_nontrivial = terms"
                       % (len(bases), "subset" if quick else "every tabulated unweighted rule"),
               "samples": [recs[0], recs[len(recs) // 2]], "exhaustive": not quick, "model": model, "judge_tlc": jstats,
               "worst_dev_millionths_by_constructor": worst, "duffy_log_errors": errs, "binding_selftest": st_self}
    ctx.assumptions = ["exact monomial integrals by rational arithmetic; error scaled by the measure times sup|monomial| on the box (conditioning of far-off boxes)",
                       "tolerance 1e-12, 1e-10 for 3-D Duffy terms"]
    return ctx.finish()
