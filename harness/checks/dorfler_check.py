"""C06: Doerfler marking refines a minimal bulk set, in exactly the marked directions.

  1. Dorfler.tla: the marking loop, exhaustive over small integer indicator vectors and a set of
     theta^2 (every weak order, zeros, ties, a dominant entry): loop == declarative, shortest,
     exists.  Every state is replayed into the real mesh; observed marked sets and resulting
     meshes are judged by TLC (TraceSTMesh, clauses marking / dorfler-closure).
  2. STMesh.tla with the Doerfler actions from every mesh within a small budget and every pair
     of marked sets (|Mt|+|Ms| <= 3, |M| <= 2): sequential level-sorted loops == declarative
     double closure, no assertion reachable; graph compared with the real mesh.
  3. DorflerAnyOrder: every processing order of equally ranked elements (tiny configurations).
  4. random histories interleaving marking steps with other refinements, judged by TLC.
"""
import itertools
import math
import os
import random
from fractions import Fraction

from .. import explore_mesh as ex
from .. import meshlib as ml
from .. import record_mesh as rm
from .. import tlc
from ..common import Ctx
from . import mesh_checks as mc

C06_CLAUSES = {"marking", "marked-directions", "dorfler-closure", "call-failed", "tiling", "one-irregular",
               "dyadic-descent", "only-refines", "duplicate-leaves", "marking-shortest-prefix", "marked-both-directions"}

THETAS = [(1, 16), (1, 4), (1, 2), (9, 16), (4, 5), (99, 100)]


def _theta_float(num, den):
    return math.sqrt(num / den)


def _knife(total, num, den, theta):
    """TRUE if rounding can legitimately decide the comparison cumsum >= total*theta**2:
    theta**2 is not exactly num/den and some integer partial sum equals num*total/den."""
    exact = Fraction(theta) * Fraction(theta) == Fraction(num, den) and (Fraction(theta) ** 2).denominator <= 2 ** 50
    if exact and float(total * theta ** 2) == total * theta ** 2:
        return False
    return (num * total) % den == 0


MC_DORFLER = """---- MODULE MCDorfler ----
EXTENDS Dorfler
ThetaSet == %s
====
"""
CFG_DORFLER = """CONSTANTS K = %d MaxEta = %d Thetas <- ThetaSet
SPECIFICATION Spec
INVARIANT LoopEqualsDeclarative
INVARIANT Exists
INVARIANT Shortest
CHECK_DEADLOCK FALSE
"""


_MODEL_CACHE = {}


def marking_model(ctx, K, maxeta, aniso, rng, knife_only=False, pad_aniso=False):
    """Dorfler.tla exhaustive + replay of every state into the real code.
    knife_only: replay only the states where an integer partial sum equals theta^2 * total for a theta whose
    square is not representable (rounding decides the marking there, so the marking clause is not judged, but
    the call must still succeed and leave a legal mesh: clause call-failed and the state clauses)."""
    thset = "{" + ", ".join("<<%d, %d>>" % t for t in THETAS) + "}"
    dump = os.path.join(tlc._scratch(), "dorfler")
    if (K, maxeta) in _MODEL_CACHE:
        res, cached = _MODEL_CACHE[(K, maxeta)]
    else:
        res = tlc.run_tlc("MCDorfler", CFG_DORFLER % (K, maxeta), timeout=1800, dump=dump,
                          aux_files={"MCDorfler.tla": MC_DORFLER % thset})
        cached = None
    st = {"K": K, "MaxEta": maxeta, "aniso": aniso, "tlc": res.stats()}
    if res.machinery_error:
        ctx.machinery_error("Dorfler.tla: " + res.machinery_error)
        return st
    if not res.ok:
        ctx.violation("model:Dorfler:" + str(res.violated), "Dorfler.tla violates %s" % res.violated,
                      {"tlc_output_tail": res.output[-2000:]})
        return st
    if cached is None:
        cached = [(tuple(s["eta"]), tuple(s["th"])) for s in tlc.read_dump(dump + ".dump")]
        _MODEL_CACHE[(K, maxeta)] = (res, cached)
    cases = list(cached)
    if knife_only:
        cases = [(e, t) for e, t in cases if sum(e) > 0 and _knife(sum(e), t[0], t[1], _theta_float(*t))]
    if pad_aniso:
        # the same contributions fed to the anisotropic call: (time, space) pairs of (K + 1) / 2 leaves, one zero added
        cases = [(e + (0,) * ((-len(e)) % 2), t) for e, t in cases]
        K, aniso = K + (K % 2), True
    import shutil
    shutil.rmtree(os.path.dirname(dump), ignore_errors=True)
    st["cases"] = len(cases)
    # replay: a mesh with N leaves.  Two carriers: N roots side by side (no closure effects) and
    # a refined single-root mesh with mixed levels.
    N = K // 2 if aniso else K
    carriers = []
    layA = ml.Layout.uniform(1, N, False, 6)
    carriers.append((layA, ()))
    layB = ml.Layout.uniform(1, 1, True, 8)
    path = [("bisect", (0, 256, 0, 256, 0, 0), 1)]
    m = ml.replay(layB, path)
    while len(m.leaf_elements) < N:
        k = ml.project(m, layB)[0]
        path.append(("bisect", k, len(path) % 2))
        m = ml.replay(layB, path)
    if len(m.leaf_elements) == N:
        carriers.append((layB, tuple(path)))
    judged = knife = 0
    for lay, path in carriers:
        events, meta = [], []
        for ci, (eta, th) in enumerate(cases):
            mesh = ml.replay(lay, path)
            theta = _theta_float(*th)
            scale = [1.0, 2.0 ** -40, 2.0 ** 30, 2.0 ** -70][ci % 4]
            form = ml.FORMS[(ci // 4) % len(ml.FORMS)]
            if aniso:
                pairs = [[eta[k], eta[N + k]] for k in range(N)]
                tot = sum(eta)
                op = ("dorfler_aniso", pairs, theta, {"th2": th, "judge": not _knife(tot, th[0], th[1], theta), "scale": scale, "form": form})
            else:
                tot = sum(eta)
                op = ("dorfler_iso", list(eta), theta, {"th2": th, "judge": not _knife(tot, th[0], th[1], theta), "scale": scale, "form": form})
            if not op[3]["judge"]:
                knife += 1
            events.append(rm.reset_event(mesh, lay, False))
            meta.append(None)
            events.append(rm.do_event(mesh, lay, op, with_nbrs=False))
            meta.append((eta, th, path))
        bad, jres = rm.judge(lay, events, timeout=1800)
        judged += len(cases)
        if jres.machinery_error:
            ctx.machinery_error("marking judge: " + jres.machinery_error)
            continue
        for l, clause in bad:
            eta, th, pth = meta[l - 1] if meta[l - 1] else ((), (), ())
            _report(ctx, clause, "marking-%s-K%d%s" % ("aniso" if aniso else "iso", K, "-knife" if knife_only else ""),
                    {"layout": lay.key(), "maxl": lay.maxl, "history": list(pth), "eta": list(eta), "theta2": list(th),
                     "event": events[l - 1]})
    st["replayed"] = judged
    st["knife_edge_excluded"] = knife
    st["sample"] = {"eta": list(cases[len(cases) // 2][0]), "theta2": list(cases[len(cases) // 2][1])}
    return st


def _report(ctx, clause, tag, replay):
    if clause.startswith("d:"):
        ctx.spec_drift("%s: %s" % (tag, clause))
    elif clause in C06_CLAUSES:
        exc = (replay.get("event") or {}).get("exc", "")
        key = "%s:%s" % (clause, tag) if clause != "call-failed" else "call-failed:%s" % (exc.split(":")[0],)
        ctx.violation(key, "clause %s fails (%s) %s" % (clause, tag, exc), replay)


CFG_REF = """CONSTANTS Nt = %(Nt)d Nx = %(Nx)d Glue = %(Glue)s MaxL = %(MaxL)d Budget = %(Budget)d
  Ops = {"bisect", "dorfler"} SortSpace = TRUE GradeSkip = TRUE P = 4 CTn = 4 CSn = 4
SPECIFICATION Spec
%(View)s
CHECK_DEADLOCK FALSE
INVARIANT DyadicDescent
INVARIANT Tiles
INVARIANT OneIrregular
INVARIANT NoErr
%(Any)s
PROPERTY OnlyRefines
"""


def refinement_model(ctx, lay_spec, budget, ordered, anyorder, widths=None, heights=None):
    Nt, Nx, glue = lay_spec
    maxl = budget + 3
    if widths or heights:
        widths = widths or (1,) * Nx
        # root panels of different widths / time slabs of different lengths (sides 1 and 2 of the L-shape, custom grids): the model's states are the same,
        # the real elements' widths are no longer a function of their levels
        from fractions import Fraction as F_
        xg = [F_(0)]
        for w in widths:
            xg.append(xg[-1] + F_(w))
        tg = [F_(0)]
        for hgt in (heights or (1,) * Nt):
            tg.append(tg[-1] + F_(hgt))
        lay = ml.Layout(tg, xg, glue, maxl)
    else:
        lay = ml.Layout.uniform(Nt, Nx, glue, maxl)
    tag = "%s-b%d-%s" % (lay.key(), budget, "ord" if ordered else "view")
    dot = os.path.join(tlc._scratch(), "graph")
    cfg = CFG_REF % {"Nt": Nt, "Nx": Nx, "Glue": "TRUE" if glue else "FALSE", "MaxL": maxl, "Budget": budget,
                     "View": "" if ordered else "VIEW View", "Any": "INVARIANT DorflerAnyOrder" if anyorder else ""}
    res = tlc.run_tlc("STMesh", cfg, timeout=3000, extra=["-dump", "dot", dot])
    st = {"layout": tag, "tlc": res.stats(), "any_order_invariant": anyorder}
    if res.machinery_error:
        ctx.machinery_error("%s: %s" % (tag, res.machinery_error))
        return st
    if not res.ok:
        ctx.violation("model:%s:%s" % (tag, res.violated), "STMesh (Doerfler actions) violates %s on %s" % (res.violated, tag),
                      {"layout": lay_spec, "budget": budget, "tlc_output_tail": res.output[-3000:]})
        return st
    nodes, sedges = ex.read_dot(dot + ".dot", ordered=ordered)
    import shutil
    shutil.rmtree(os.path.dirname(dot), ignore_errors=True)
    S_spec = {v[0] for v in nodes.values()}
    g = ex.explore(lay, {"bisect", "dorfler"}, budget, ordered=ordered)
    S_code = set(g["states"])
    st.update({"spec_states": len(S_spec), "code_states": len(S_code), "spec_edges": len(sedges),
               "code_edges": len(g["edges"]), "real_calls_failed": len(g["fails"])})
    for path, op, exc in g["fails"]:
        ctx.violation("call-failed:%s" % exc.split(":")[0],
                      "%s raised %s after history %r on %s" % (op[0], exc, path, lay.key()),
                      {"layout": lay_spec, "maxl": maxl, "ops": list(path) + [op], "exc": exc})
    if ordered:
        # the model allows every tie order of an isotropic marking, the real code takes one:
        # ordered states of the code must be among the model's, leaf sets must coincide
        fs_spec, fs_code = {frozenset(s) for s in S_spec}, {frozenset(s) for s in S_code}
        if not (S_code <= S_spec):
            if fs_code <= fs_spec:
                ctx.spec_drift("%s: %d ordered states of the real mesh are not among the model's" % (tag, len(S_code - S_spec)))
        S_spec, S_code = fs_spec, fs_code
        sedges = {(frozenset(a), frozenset(b)) for a, b in sedges}
        g["edges"] = {(frozenset(a), frozenset(b)) for a, b in g["edges"]}
        g["states"] = {frozenset(k): v for k, v in g["states"].items()}
    if S_spec != S_code or sedges != g["edges"]:
        only_code = S_code - S_spec
        only_spec = S_spec - S_code
        if only_code:
            sid = next(iter(only_code))
            ctx.violation("dorfler-closure:graph:" + tag,
                          "a marking step of the real mesh produces a leaf set the specification does not allow (history %r)"
                          % (g["states"][sid][0],),
                          {"layout": lay_spec, "maxl": maxl, "ops": list(g["states"][sid][0])})
        elif not g["fails"]:
            ctx.violation("dorfler-closure:graph:" + tag, "state graphs differ (spec-only states %d, edge diff %d/%d)"
                          % (len(only_spec), len(sedges - g["edges"]), len(g["edges"] - sedges)),
                          {"layout": lay_spec, "maxl": maxl})
    # every marking transition judged with its own marked sets (two different markings can lead from one mesh to the same
    # two meshes, so the unlabelled graph alone cannot tell a swapped result): result == DorflerDecl(pre, Mt, Ms)
    lab = g.get("labelled", [])
    if lab:
        cap_l = 1500 if budget <= 2 else 4000
        if len(lab) > cap_l:
            import random as _r
            _r.Random(len(lab)).shuffle(lab)
            lab = lab[:cap_l]
        events, meta = [], []
        for pre, op, post in lab:
            events.append({"k": "reset", "exc": "", "post": [list(k) for k in pre]})
            meta.append(None)
            mt = [list(k) for k in op[1]]
            ms = [list(k) for k in (op[2] if op[0] == "mark_aniso" else op[1])]
            events.append({"k": "dorfler", "exc": "", "kind": "dorfler_iso" if op[0] == "mark_iso" else "dorfler_aniso", "theta": 0.5, "mt": mt, "ms": ms,
                           "post": [list(k) for k in post]})
            meta.append((pre, op))
        bad, jres = rm.judge(lay, events, timeout=3000)
        st["labelled_marking_transitions_judged"] = len(lab)
        if jres.machinery_error:
            ctx.machinery_error("%s labelled transitions: %s" % (tag, jres.machinery_error))
        else:
            for l, clause in bad:
                if meta[l - 1] is None:
                    continue
                pre, op = meta[l - 1]
                _report(ctx, clause, tag + "-labelled", {"layout": lay_spec, "maxl": maxl, "pre_state": [list(k) for k in pre], "op": [op[0]] + [[list(k) for k in x] for x in op[1:]],
                                                         "event": events[l - 1]})
    for path, probs in g["problems"]:
        for clause, text in probs:
            if clause in C06_CLAUSES and clause != "one-irregular" or (clause == "one-irregular" and ctx.prop in ("C02", "C06")):
                ctx.violation("%s:%s" % (clause, tag), text, {"layout": lay_spec, "maxl": maxl, "ops": list(path)})
    return st


def random_traces(ctx, tier, seed):
    rng = random.Random(seed * 104729 + 3)
    lays = [(1, 1, True), (1, 3, True), (1, 4, True), (2, 2, False), (2, 3, True), (1, 6, True)]
    n_hist, steps, cap = (2, 14, 90) if tier == "quick" else (10, 30, 260)
    shapes = ["uniform", "heavy", "01", "equal", "dominant", "zeros"]
    total, traces, samples = 0, 0, []
    stats = []
    knife = 0
    from fractions import Fraction as F_
    variants = [(spec, False) for spec in lays] + [(lays[0], True), (lays[-1], True)]
    for (Nt, Nx, glue), nonuniform in variants:
        if nonuniform:
            # root panels and slabs of different lengths (an L-shape has sides 1 and 2; custom grids are legal): width is
            # then not a function of the level
            tg, xg = [F_(0)], [F_(0)]
            for _ in range(Nt):
                tg.append(tg[-1] + F_(rng.choice([1, 2, 3]), rng.choice([1, 2, 4])))
            for _ in range(max(Nx, 3)):
                xg.append(xg[-1] + F_(rng.choice([1, 2, 5]), rng.choice([1, 2])))
            lay = ml.Layout(tg, xg, glue, 12)
        else:
            lay = ml.Layout.uniform(Nt, Nx, glue, 12)
        events, starts = [], []
        for h in range(n_hist):
            starts.append(len(events))
            mesh = lay.new_mesh()
            events.append(rm.reset_event(mesh, lay, False))
            for s in range(steps):
                order = ml.project(mesh, lay)
                if len(order) > cap or events[-1]["exc"]:
                    break
                r = rng.random()
                if r < 0.45:
                    k = rng.choice(order)
                    op = ("bisect", k, rng.randrange(2))
                else:
                    n = len(order)
                    shape = rng.choice(shapes)
                    aniso = rng.random() < 0.5
                    m = 2 * n if aniso else n
                    if shape == "uniform":
                        v = [rng.randrange(0, 60) for _ in range(m)]
                    elif shape == "heavy":
                        v = [int(1 / (rng.random() ** 2 + 1e-3)) % 100 for _ in range(m)]
                    elif shape == "01":
                        v = [rng.randrange(2) for _ in range(m)]
                    elif shape == "equal":
                        v = [7] * m
                    elif shape == "dominant":
                        v = [1] * m
                        v[rng.randrange(m)] = 90
                    else:
                        v = [0] * m
                        if rng.random() < 0.7:
                            v[rng.randrange(m)] = rng.randrange(1, 5)
                    if rng.random() < 0.5:
                        th = rng.choice([(1, 4), (1, 16), (9, 16), (25, 64), (49, 64), (81, 100), (1, 100)])
                    else:
                        q = rng.choice([10, 20, 7, 3])
                        pth = rng.randrange(1, q)
                        th = (pth * pth, q * q)
                    theta = math.sqrt(th[0]) / math.sqrt(th[1]) if False else (math.isqrt(th[0]) / math.isqrt(th[1]))
                    judge = not _knife(sum(v), th[0], th[1], theta)
                    if not judge:
                        knife += 1
                    scale = rng.choice([1.0, 1.0, 2.0 ** -40, 2.0 ** -60, 2.0 ** 25])
                    if aniso:
                        op = ("dorfler_aniso", [[v[i], v[n + i]] for i in range(n)], theta, {"th2": th, "judge": judge, "scale": scale})
                    else:
                        op = ("dorfler_iso", v, theta, {"th2": th, "judge": judge, "scale": scale})
                events.append(rm.do_event(mesh, lay, op, with_nbrs=False))
        bad, jres = rm.judge(lay, events, timeout=3000)
        total += len(events)
        traces += len(starts)
        stats.append({"layout": lay.key(), "events": len(events), "tlc": jres.stats(),
                      "dorfler_events": sum(1 for e in events if e["k"] == "dorfler")})
        if jres.machinery_error:
            ctx.machinery_error("random traces %s: %s" % (lay.key(), jres.machinery_error))
            continue
        for l, clause in bad:
            s0 = max(s for s in starts if s <= l - 1)
            hist = [_ev_op(e) for e in events[s0 + 1:l]]
            _report(ctx, clause, "trace-" + lay.key(),
                    {"layout": (Nt, Nx, glue), "maxl": 12, "history": hist,
                     "event": {k: v for k, v in events[l - 1].items() if k not in ("book",)} if len(events[l - 1]["post"]) < 60 else {"exc": events[l - 1]["exc"]}})
        if not samples:
            samples = [{k: v for k, v in e.items() if k in ("k", "kind", "etai", "th2", "mt", "ms")}
                       for e in events if e["k"] == "dorfler"][:2]
    return {"events": total, "traces": traces, "per_layout": stats, "samples": samples, "knife_edge_excluded": knife}


def _ev_op(e):
    if e["k"] == "bisect":
        return ["bisect", e["e"], e["ax"]]
    if e["k"] == "dorfler":
        return [e["kind"], e.get("etai"), e.get("theta")]
    return [e["k"]]


def selftest(ctx):
    """a marking record with one marked element removed / a wrong threshold must be rejected"""
    lay = ml.Layout.uniform(1, 4, True, 6)
    mesh = lay.new_mesh()
    ev0 = rm.reset_event(mesh, lay, False)
    ev1 = rm.do_event(mesh, lay, ("dorfler_iso", [5, 1, 3, 0], 0.75, {"th2": (9, 16), "judge": True}), with_nbrs=False)
    out = {}
    bad, r = rm.judge(lay, [ev0, ev1])
    out["uncorrupted_accepted"] = bad == []
    import copy
    a = copy.deepcopy(ev1)
    a["etai"] = [1, 5, 3, 0]
    bad, r = rm.judge(lay, [ev0, a])
    out["wrong_marked_set_rejected"] = bool(bad) and ("marking" in [c for _, c in bad])
    b = copy.deepcopy(ev1)
    b["th2"] = [1, 16]
    bad, r = rm.judge(lay, [ev0, b])
    out["not_shortest_rejected"] = bool(bad) and ("marking" in [c for _, c in bad])
    c = copy.deepcopy(ev1)
    c["post"] = ev0["post"]
    bad, r = rm.judge(lay, [ev0, c])
    out["unrefined_post_rejected"] = bool(bad) and ("dorfler-closure" in [cl for _, cl in bad])
    if not all(out.values()):
        ctx.machinery_error("binding self-test failed: %r" % out)
    return out


def run(prop, tier, seed):
    ctx = Ctx("C06", tier, seed)
    rng = random.Random(seed)
    quick = tier == "quick"
    mk = [marking_model(ctx, 4, 3, False, rng), marking_model(ctx, 6 if not quick else 4, 2 if not quick else 3, True, rng)]
    if not quick:
        mk.append(marking_model(ctx, 5, 4, False, rng))
    else:
        mk.append(marking_model(ctx, 5, 4, False, rng, knife_only=True))
    mk.append(marking_model(ctx, 5, 4, False, rng, knife_only=True, pad_aniso=True))
    ctx.log("marking %s" % mk)
    fam = [((1, 2, False), 2, 3), ((1, 3, True), 2, 3), ((2, 2, False), 1, 2), ((1, 1, True), 3, 4)]
    ref = []
    for lay_spec, bq, bt in fam:
        st = refinement_model(ctx, lay_spec, bq if quick else bt, False, False)
        ref.append(st)
        ctx.log("refine %s" % st)
    for lay_spec, b, widths, heights in ([((1, 2, False), 2, (1, 3), None), ((1, 3, True), 1, (2, 1, 5), None), ((2, 1, False), 2, None, (1, 3))] if quick else
                                         [((1, 2, False), 3, (1, 3), None), ((1, 3, True), 2, (2, 1, 5), None), ((1, 2, False), 3, (2, 1), None), ((2, 1, False), 3, None, (1, 3)),
                                          ((2, 2, False), 2, (1, 3), (5, 1))]):
        st = refinement_model(ctx, lay_spec, b, False, False, widths=widths, heights=heights)
        ref.append(st)
        ctx.log("refine-nonuniform-widths %s" % st)
    for lay_spec, b in ([((1, 2, False), 2), ((1, 1, True), 2)] if quick else [((1, 2, False), 3), ((1, 1, True), 3), ((1, 3, True), 2)]):
        st = refinement_model(ctx, lay_spec, b, True, True)
        ref.append(st)
        ctx.log("refine-ordered-anyorder %s" % st)
    tr = random_traces(ctx, tier, seed)
    ctx.log("traces %s" % {k: v for k, v in tr.items() if k != "per_layout"})
    # the unmodified driver's own marking calls (real-valued indicators from the estimators)
    from .. import loop_lib
    drv = loop_lib.driver_block(ctx, [("Dirichlet", "UnitSquare", 0, "isotropic", "sobolev", 0, 2 if quick else 3),
                                      ("MildSingular", "Circle", 0, "anisotropic", "sobolev", 0, 3 if quick else 4),
                                      ("Dirichlet", "LShape", 1, "anisotropic", "sobolev-l2", 0, 2 if quick else 3),
                                      ("MildSingular", "LShape", 0, "isotropic", "sobolev", 0, 2 if quick else 3)],
                                {"dorfler"}, C06_CLAUSES)
    ctx.log("driver %s" % drv)
    st_self = selftest(ctx)
    states = sum(m["tlc"]["distinct"] for m in mk) + sum(r["tlc"]["distinct"] for r in ref)
    trans = sum(m["tlc"]["generated"] for m in mk) + sum(r["tlc"]["generated"] for r in ref)
    ctx.cov = {
        "states": states, "transitions": trans,
        "driver_runs": drv, "traces_validated_against_impl": len(drv) + sum(m.get("replayed", 0) for m in mk) + tr["traces"] + sum(r.get("code_states", 0) for r in ref),
        "samples": [mk[0].get("sample"), tr["samples"]],
        "exhaustive": True,
        "marking_models": mk, "refinement_models": ref, "random_traces": tr, "binding_selftest": st_self,
        "rule": "Dorfler.tla: all indicator vectors in 0..MaxEta on K contributions x 6 values of theta^2, each replayed on two real meshes; "
                "STMesh Doerfler actions from every mesh within the budget x all marked pairs (|Mt|+|Ms|<=3, |M|<=2), graph == real graph; "
                "random interleaved histories with integer indicators judged by TraceSTMesh",
    }
    ctx.assumptions = [
        "indicator values are small integers (exact in double precision); for theta whose square is not exactly representable, inputs where "
        "an integer partial sum equals theta^2*total are excluded from the marking clause (rounding decides them) and counted",
        "for an all-zero indicator vector both 'nothing marked' and 'one element marked' are accepted",
        "marked elements are observed as the top-level refine_axis calls made by the Doerfler routine (runtime wrapper)",
    ]
    return ctx.finish()
