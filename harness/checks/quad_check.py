"""C16: domain quadtree -- tiling, 2:1 balance, vertex uniqueness, boundary-segment targeting.

  A. QuadTree.tla exhaustive (refine / uniform / TargetBdr for every boundary segment up to
     SegMaxL) within a subdivision budget on the three domains; TLC graph == real graph
     (InitialMesh driven through the same alphabet; segments in both orientations, end points
     passed as tuples, lists, 2x1 arrays); measurements of every real state and every
     targeting call judged by TLC (TraceQuadTree).
  B. long random refinement histories followed by targeting of deep segments (l <= 10), judged.
"""
import os
import random

from .. import quadlib as ql
from .. import tlc
from ..common import Ctx

C16_CLAUSES = {"cell-shape", "duplicate-leaves", "tiling", "balance", "closure", "uniform", "only-refines",
               "call-failed", "target-exactly-one", "target-endpoints", "target-returned-cell",
               "target-endpoints-retrievable", "target-touching-cells", "no-duplicate-leaves", "levels",
               "vertex-unique", "corners-registered", "leaves-are-elements"}

MC = """---- MODULE MCQuadTree ----
EXTENDS QuadTree
RootPosDef == %s
====
"""
CFG = """CONSTANTS RootPos <- RootPosDef MaxLevel = %(MaxLevel)d Budget = %(Budget)d SegMaxL = %(SegMaxL)d
  Ops = {"refine", "target", "uniform"}
SPECIFICATION Spec
VIEW View
CHECK_DEADLOCK FALSE
INVARIANT Tiles
INVARIANT Balanced
INVARIANT NoErr
PROPERTY RefineIsClosure
PROPERTY OnlyRefines
PROPERTY TargetOK
"""


def _report(ctx, clause, tag, replay, exc=""):
    if clause.startswith("d:"):
        ctx.spec_drift("%s: %s" % (tag, clause))
    elif clause in C16_CLAUSES:
        if clause == "call-failed":
            key = "call-failed:%s:%s" % (replay.get("op", ["?"])[0], exc.split(":")[0])
        else:
            key = "%s:%s" % (clause, tag)
        ctx.violation(key, "clause %s fails (%s) %s" % (clause, tag, exc), replay)


def exhaustive(ctx, name, budget, segmaxl):
    maxlevel = max(budget + 1, segmaxl + 1) + 1
    dom = ql.Domain(name, maxlevel)
    tag = "%s-b%d-l%d" % (name, budget, segmaxl)
    dot = os.path.join(tlc._scratch(), "graph")
    res = tlc.run_tlc("MCQuadTree", CFG % {"MaxLevel": maxlevel, "Budget": budget, "SegMaxL": segmaxl}, timeout=3000,
                      aux_files={"MCQuadTree.tla": MC % dom.rootpos_tla()}, extra=["-dump", "dot", dot])
    st = {"domain": tag, "tlc": res.stats()}
    if res.machinery_error:
        ctx.machinery_error("%s: %s" % (tag, res.machinery_error))
        return st
    if not res.ok:
        ctx.violation("model:%s:%s" % (tag, res.violated), "QuadTree.tla violates %s (%s)" % (res.violated, tag),
                      {"domain": name, "budget": budget, "tlc_output_tail": res.output[-3000:]})
        return st
    nodes, sedges = ql.read_dot(dot + ".dot")
    import shutil
    shutil.rmtree(os.path.dirname(dot), ignore_errors=True)
    S_spec = {v[0] for v in nodes.values()}
    g = ql.explore(dom, {"refine", "target", "uniform"}, budget, segmaxl)
    S_code = set(g["states"])
    st.update({"spec_states": len(S_spec), "code_states": len(S_code), "spec_edges": len(sedges), "code_edges": len(g["edges"]),
               "real_calls_failed": len(g["fails"]), "target_calls": len(g["target_events"])})
    for path, op, exc in g["fails"]:
        _report(ctx, "call-failed", tag, {"domain": name, "maxlevel": maxlevel, "ops": [list(o) for o in path], "op": list(op), "exc": exc}, exc)
    if (S_spec != S_code or sedges != g["edges"]) and not g["fails"]:
        only_code = S_code - S_spec
        if only_code:
            sid = next(iter(only_code))
            ctx.violation("closure:graph:" + tag, "real quadtree reaches a leaf set the specification does not (history %r)" % (g["states"][sid],),
                          {"domain": name, "maxlevel": maxlevel, "ops": [list(o) for o in g["states"][sid]]})
        else:
            ctx.violation("closure:graph:" + tag, "state graphs differ (spec-only %d, edges %d/%d)" % (len(S_spec - S_code), len(sedges - g["edges"]), len(g["edges"] - sedges)),
                          {"domain": name, "maxlevel": maxlevel})
    # judge measurements: every state, and every targeting call as (reset pre, target event)
    events, index = [], []
    for sid, path in g["states"].items():
        events.append(g["events"].get(sid) or {"k": "reset", "exc": "missing", "post": []})
        index.append((path, None))
    for path, pre, ev in g["target_events"]:
        events.append(pre)
        index.append((path, None))
        events.append(ev)
        index.append((path, ("target", ev["g"], ev["flipped"], ev["form"])))
    bad, jres = ql.judge(dom, events, timeout=3000)
    st["judged_events"] = len(events)
    st["judge_tlc"] = jres.stats()
    if jres.machinery_error:
        ctx.machinery_error("%s judge: %s" % (tag, jres.machinery_error))
    else:
        for l, clause in bad:
            path, op = index[l - 1]
            _report(ctx, clause, tag, {"domain": name, "maxlevel": maxlevel, "ops": [list(o) for o in path], "op": list(op) if op else None},
                    events[l - 1].get("exc", ""))
    return st


def random_traces(ctx, tier, seed):
    rng = random.Random(seed * 977 + 5)
    quick = tier == "quick"
    n_hist, steps, ntarget, lmax = (3, 12, 10, 10) if quick else (12, 40, 40, 10)
    total = ntargets = 0
    stats, samples = [], []
    for name in ("UnitSquare", "PiSquare", "LShape"):
        dom = ql.Domain(name, 12)
        events, meta = [], []
        for h in range(n_hist):
            mesh = dom.new_mesh()
            ops = []
            events.append(ql.reset_event(mesh, dom))
            meta.append((tuple(ops), None))
            for s in range(rng.randrange(0, steps)):
                cells = sorted(ql.project(mesh, dom))
                c = rng.choice([c for c in cells if c[3] < 6])
                op = ("refine", c)
                events.append(ql.do_event(mesh, dom, op))
                ops.append(op)
                meta.append((tuple(ops), op))
                if events[-1]["exc"]:
                    break
            if events[-1]["exc"]:
                continue
            for t in range(ntarget):
                cells = ql.project(mesh, dom)
                l = rng.randrange(0, lmax + 1) if t >= 2 else lmax - t      # the finest admissible levels (10, 9) in every history
                segs = ql.all_segments(ql.Domain(name, 12), 0)
                base = rng.choice(segs)
                g = dom.U // 2 ** l
                k = rng.randrange(2 ** l)
                if base[1] == base[3]:
                    seg = (base[0] + k * g, base[1], base[0] + (k + 1) * g, base[3])
                else:
                    seg = (base[0], base[1] + k * g, base[2], base[1] + (k + 1) * g)
                if not any(ql.contains_seg(c, seg) for c in cells):
                    continue
                op = ("target", seg, rng.random() < 0.5, rng.choice(ql.FORMS))
                events.append(ql.do_event(mesh, dom, op))
                ops.append(op)
                meta.append((tuple(ops), op))
                ntargets += 1
                if events[-1]["exc"] or len(events[-1]["post"]) > 700:
                    break
        bad, jres = ql.judge(dom, events, timeout=3000)
        total += len(events)
        stats.append({"domain": name, "events": len(events), "tlc": jres.stats(), "max_leaves": max(len(e["post"]) for e in events)})
        if jres.machinery_error:
            ctx.machinery_error("random traces %s: %s" % (name, jres.machinery_error))
            continue
        for l, clause in bad:
            path, op = meta[l - 1]
            _report(ctx, clause, "trace-" + name, {"domain": name, "maxlevel": 12, "ops": [list(o) for o in path[:-1]] if op else [list(o) for o in path],
                                                   "op": list(op) if op else None}, events[l - 1].get("exc", ""))
        if not samples:
            samples = [{k: v for k, v in e.items() if k in ("k", "c", "g", "flipped", "form", "ret_has_edge", "endpoints_found")} for e in events[1:4]]
    return {"events": total, "targeting_calls": ntargets, "per_domain": stats, "samples": samples}


def selftest(ctx):
    dom = ql.Domain("UnitSquare", 6)
    mesh = dom.new_mesh()
    ev = [ql.reset_event(mesh, dom)]
    ev.append(ql.do_event(mesh, dom, ("refine", (0, 0, 64, 0))))
    ev.append(ql.do_event(mesh, dom, ("refine", (0, 0, 32, 1))))
    out = {}
    bad, r = ql.judge(dom, ev)
    out["uncorrupted_accepted"] = bad == []
    import copy
    a = copy.deepcopy(ev)
    a[2]["post"] = [c for c in a[2]["post"] if c != [0, 0, 16, 2]]
    bad, r = ql.judge(dom, a)
    out["dropped_cell_rejected"] = bool(bad) and "tiling" in [c for _, c in bad]
    b = copy.deepcopy(ev)
    b[2]["book"]["vertex-unique"] = False
    bad, r = ql.judge(dom, b)
    out["flag_rejected"] = bool(bad) and "vertex-unique" in [c for _, c in bad]
    if not all(out.values()):
        ctx.machinery_error("binding self-test failed: %r" % out)
    return out


def run(prop, tier, seed):
    ctx = Ctx("C16", tier, seed)
    quick = tier == "quick"
    plan = [("UnitSquare", 4, 3), ("PiSquare", 3, 3), ("LShape", 3, 2)] if quick else [("UnitSquare", 5, 4), ("PiSquare", 4, 3), ("LShape", 4, 3)]
    stats = []
    for name, b, sl in plan:
        st = exhaustive(ctx, name, b, sl)
        stats.append(st)
        ctx.log("exhaustive %s" % st)
    tr = random_traces(ctx, tier, seed)
    ctx.log("traces %s" % {k: v for k, v in tr.items() if k != "per_domain"})
    st_self = selftest(ctx)
    ctx.cov = {
        "states": sum(s["tlc"]["distinct"] for s in stats), "transitions": sum(s["tlc"]["generated"] for s in stats),
        "traces_validated_against_impl": sum(s.get("judged_events", 0) for s in stats) + tr["events"],
        "samples": tr["samples"] or stats, "exhaustive": True, "exhaustive_runs": stats, "random_traces": tr,
        "binding_selftest": st_self,
        "rule": "all sequences of refine / uniform_refine / refine_msh_bdr within the subdivision budget on the three domains, all boundary "
                "segments up to SegMaxL in both orientations and three input forms (TLC graph == real graph, all measurements judged by TLC); "
                "random histories + deep segments (l <= 10) judged by TraceQuadTree",
    }
    ctx.assumptions = [
        "refine_msh_bdr is called only for segments contained in an edge of a current leaf (its precondition: TLC shows that otherwise no refinement can satisfy the post-condition)",
        "uniform_refine is exercised on level-uniform meshes only (on other meshes it can fail depending on Python's set order; outside the listed properties)",
    ]
    return ctx.finish()
