"""C08: the initial-potential load vector equals the integral of the exact initial potential.

QuadTree.tla (checked by C16, re-run here in its smallest configuration) guarantees the
classification of domain cells that `linform` relies on (exactly one identical cell, touching
cells have an end point as a corner).  For boundary elements enumerated on the dyadic family of
every unit piece of the three polygonal domains (time intervals starting at 0 and later, aspect
<= 32): linform vs the element integral of the re-derived closed-form potential (u0 = 1, the sine
product: 1e-5), linearity in u0, additivity under the four splittings and an independent closed
form for polynomial / sine-times-linear data (1e-6), pointwise domain evaluation (1e-5 for
t >= 0.05 side^2).  Judged by TLC (Judge.tla) with class coverage.
"""
import contextlib
import io
import math
import random

import numpy as np

from .. import judge as jd
from .. import panels_lib as pl
from .. import tlc
from ..common import Ctx, setup_path
from ..oracles import m0_ref as mr
from . import quad_check as qc


def run(prop, tier, seed):
    setup_path()
    ctx = Ctx("C08", tier, seed)
    rng = random.Random(seed + 8)
    quick = tier == "quick"
    from src import initial_mesh as im
    from src.initial_potential import InitialOperator
    # the discrete precondition (smallest QuadTree configuration; the full exploration is C16's)
    pre = []
    for name in ("UnitSquare", "LShape"):
        from .. import quadlib as ql
        dom = ql.Domain(name, 4)
        res = tlc.run_tlc("MCQuadTree", qc.CFG % {"MaxLevel": 4, "Budget": 1, "SegMaxL": 2}, timeout=900,
                          aux_files={"MCQuadTree.tla": qc.MC % dom.rootpos_tla()})
        pre.append({"domain": name, "tlc": res.stats()})
        if res.machinery_error:
            ctx.machinery_error("QuadTree.tla: " + res.machinery_error)
        elif not res.ok:
            ctx.violation("model:QuadTree:%s" % res.violated, "QuadTree.tla violates %s" % res.violated, {})
    IM = {"UnitSquare": im.UnitSquareBoundaryRefined, "PiSquare": im.PiSquareBoundaryRefined, "LShape": im.LShapeBoundaryRefined}
    sidew = {"UnitSquare": 1.0, "PiSquare": math.pi, "LShape": 1.0}
    one = mr.U0([(1.0, ("p", 0), ("p", 0))])
    data = {
        "one": one,
        "sine": None,   # per domain
        "x": mr.U0([(1.0, ("p", 1), ("p", 0))]),
        "sinx_y": mr.U0([(1.0, ("s", 1.0), ("p", 1))]),
        "quad": mr.U0([(rng.randint(-3, 3) or 1.0, ("p", 2), ("p", 0)), (float(rng.randint(-3, 3)), ("p", 1), ("p", 1)), (float(rng.randint(-3, 3)), ("p", 0), ("p", 2)),
                       (1.5, ("p", 0), ("p", 0))]),
    }
    recs, stats, samples = [], [], []
    nper = 10 if quick else 60
    for name, maxl in (("UnitSquare", 3), ("PiSquare", 2), ("LShape", 2)):
        sh = pl.Shape(name, maxl, 2)
        fac = pl.Factory(sh, 1)
        w = math.pi if name == "PiSquare" else 1.0
        sine = mr.U0([(1.0, ("s", math.pi / w), ("s", math.pi / w))]) if name != "LShape" else mr.U0([(1.0, ("s", math.pi), ("s", math.pi))])
        ops = {}

        def M0(key):
            if key not in ops:
                u = sine if key == "sine" else data[key]
                with contextlib.redirect_stdout(io.StringIO()):
                    ops[key] = InitialOperator(bdr_mesh=fac.mesh, u0=u, initial_mesh=IM[name])
            return ops[key]
        # elements: dyadic sub-intervals of unit pieces x time intervals (starting at 0 / later), aspect <= 32
        elems = []
        for i in range(len(sh.pieces)):
            for u in range(sh.pieces[i]):
                for l in range(maxl + 1):
                    g = sh.U // 2 ** l
                    for k in range(2 ** l):
                        x0 = sh.starts[i] + u * sh.U + k * g
                        for lt in range(3):
                            gt = sh.UT // 2 ** lt
                            for kt in range(2 ** lt):
                                e = (kt * gt, (kt + 1) * gt, x0, x0 + g)
                                if sh.aspect(e) <= 32 and e[1] - e[0] >= 2 and e[3] - e[2] >= 2:
                                    elems.append(e)
        rng.shuffle(elems)
        sel = [e for e in elems if e[0] == 0][:nper // 2] + [e for e in elems if e[0] > 0][:nper // 2]
        worst = {}
        for e in sel:
            E = fac.get(e)
            a, b = E.space_interval
            p0, p1 = np.asarray(E.gamma_space(a)).flatten(), np.asarray(E.gamma_space(b)).flatten()
            tcls = "a=0" if e[0] == 0 else "a>0"
            vals = {}
            for key in ("one", "sine", "x", "sinx_y", "quad"):
                u = sine if key == "sine" else data[key]
                try:
                    v = M0(key).linform(E)[0]
                except Exception as ex:
                    recs.append({"cls": "%s:%s:closed-form:%s" % (name, tcls, key), "ok": False, "exc": repr(ex)[:120], "elem": list(e)})
                    continue
                vals[key] = v
                ref = mr.element_integral(name, u, *E.time_interval, p0, p1)
                tol = 1e-5 if key in ("one", "sine") else 1e-6
                scale = abs(ref) if key in ("one", "sine") else max(abs(ref), 1e-3 * abs(mr.element_integral(name, one, *E.time_interval, p0, p1)))
                d = jd.dev(v, ref, tol * scale)
                recs.append({"cls": "%s:%s:closed-form:%s" % (name, tcls, key), "dev": d, "value": repr(float(v)), "ref": repr(ref), "elem": list(e)})
                worst[key] = max(worst.get(key, 0), d)
            # linearity: u0 = 2*x - 3*quad
            if "x" in vals and "quad" in vals:
                comb = mr.U0([(2.0 * c, fx, fy) for c, fx, fy in data["x"].terms] + [(-3.0 * c, fx, fy) for c, fx, fy in data["quad"].terms])
                with contextlib.redirect_stdout(io.StringIO()):
                    vc = InitialOperator(bdr_mesh=fac.mesh, u0=comb, initial_mesh=IM[name]).linform(E)[0]
                lin = 2.0 * vals["x"] - 3.0 * vals["quad"]
                recs.append({"cls": "%s:%s:linearity" % (name, tcls), "dev": jd.dev(vc, lin, 1e-6 * max(abs(vals["x"]), abs(vals["quad"]))), "elem": list(e)})
            # additivity under splitting
            if "quad" in vals:
                from .pair_checks import pieces_of
                for kind in ("time", "space", "quarter"):
                    ps = pieces_of(e, kind)
                    if any(sh.aspect(p) > 32 for p in ps):
                        continue
                    ssum = math.fsum(M0("quad").linform(fac.get(p))[0] for p in ps)
                    recs.append({"cls": "%s:%s:additivity:%s" % (name, tcls, kind), "dev": jd.dev(ssum, vals["quad"], 1e-6 * max(abs(vals["quad"]), 1e-3 * abs(vals.get("one", 1.0)))), "elem": list(e)})
        # very thin early slabs of a mesh graded towards t = 0 (custom tensor initial time mesh): [0, 2^-k], [2^-k, 2^-(k-1)]
        from src import parametrization as pz
        from src.mesh import MeshParametrized
        for kk in ((12, 27, 30) if quick else (8, 12, 16, 20, 24, 26, 27, 28, 30, 33)):
            with contextlib.redirect_stdout(io.StringIO()):
                tm = MeshParametrized(getattr(pz, name)(), initial_time_mesh=[0.0, 2.0 ** -kk, 2.0 ** -(kk - 1), 1.0])
                opsk = {key: InitialOperator(bdr_mesh=tm, u0=(sine if key == "sine" else data[key]), initial_mesh=IM[name]) for key in ("one", "sine")}
            for slab in (0, 1):
                t0 = [0.0, 2.0 ** -kk][slab]
                side_i = rng.randrange(len(sh.pieces))
                cand = [e for e in tm.leaf_elements if e.time_interval[0] == t0 and abs(e.space_interval[0] - sh.starts[side_i] * sh.unit / sh.U) < 1e-12]
                if not cand:
                    cand = [e for e in tm.leaf_elements if e.time_interval[0] == t0]
                E = cand[0]
                with contextlib.redirect_stdout(io.StringIO()):
                    while E.h_x > 1.0 + 1e-12 or E.h_x ** 2 / E.h_t > 32:
                        E = tm.refine_space(E)[rng.randrange(2)]
                a, b = E.space_interval
                p0, p1 = np.asarray(E.gamma_space(a)).flatten(), np.asarray(E.gamma_space(b)).flatten()
                for key in ("one", "sine"):
                    u = sine if key == "sine" else data[key]
                    cls = "%s:thin-early-slab:%s:%s" % (name, "a=0" if slab == 0 else "a>0", key)
                    try:
                        v = opsk[key].linform(E)[0]
                    except Exception as ex:
                        recs.append({"cls": cls, "ok": False, "exc": repr(ex)[:120], "time_level": kk})
                        continue
                    ref = mr.element_integral(name, u, *E.time_interval, p0, p1)
                    recs.append({"cls": cls, "dev": jd.dev(v, ref, 1e-5 * abs(ref)), "value": repr(float(v)), "ref": repr(ref), "time_level": kk,
                                 "elem_float": [list(map(float, E.time_interval)), list(map(float, E.space_interval))]})
        # pointwise evaluation through the domain quadrature, t >= 0.05 side^2
        side = sidew[name] * (2 if name == "LShape" else 1)
        for key in ("one", "sine", "quad"):
            u = sine if key == "sine" else data[key]
            for _ in range(3 if quick else 12):
                t = rng.uniform(0.05, 0.6) * side ** 2
                E = fac.get(rng.choice(sel))
                xh = rng.uniform(*E.space_interval)
                X = np.asarray(E.gamma_space(xh)).reshape(2, 1)
                try:
                    v = float(np.asarray(M0(key).evaluate(t, X)).reshape(-1)[0])
                except Exception as ex:
                    recs.append({"cls": "%s:pointwise:%s" % (name, key), "ok": False, "exc": repr(ex)[:100]})
                    continue
                ref = float(u.potential(name, t, X[0, 0], X[1, 0]))
                recs.append({"cls": "%s:pointwise:%s" % (name, key), "dev": jd.dev(v, ref, 1e-5 * max(abs(ref), 1e-3)), "value": repr(v), "ref": repr(ref), "t": t})
        stats.append({"domain": name, "elements": len(sel), "worst_dev_millionths": worst})
        if len(samples) < 2:
            samples.append(recs[len(recs) // 2])
        ctx.log("domain %s" % stats[-1])
    required = {r["cls"] for r in recs}
    bad, missing, jres = jd.judge(recs, required)
    if jres.machinery_error:
        ctx.machinery_error("judge: " + jres.machinery_error)
    else:
        for i, clause in bad:
            r = recs[i]
            ctx.violation("%s:%s" % (clause, r["cls"]), "%s for %s: %r" % (clause, r["cls"], r), r)
    b2, _, _ = jd.judge([{"cls": "x", "dev": 2_000_000}], {"x"})
    ctx.cov = {"evaluations": len(recs), "distinct_nontrivial": len(required),
               "rule": "boundary elements on dyadic sub-intervals of unit pieces (levels <= %d) x time intervals starting at 0 / later, aspect <= 32, %d per domain; five initial data; "
                       "distinct_nontrivial = (domain, time class, clause, datum) classes" % (3, nper),
               "samples": samples, "per_domain": stats, "quadtree_precondition_models": pre, "judge_tlc": jres.stats(), "binding_selftest": {"corrupted_dev_rejected": bool(b2)}}
    ctx.assumptions = ["closed-form heat extensions re-derived in harness/oracles/m0_ref.py (Gaussian moments, complex error function), self-checked against mpmath in the thorough tier",
                       "element integrals of the closed form by graded tensor Gauss-Legendre (square-root layers at t -> 0 and at corners)",
                       "sine product on the L-shape is only used for linearity-type clauses through its closed form on the union of two rectangles"]
    return ctx.finish()
