"""C19: grading post-processing terminates with every leaf in the parabolic window.

  1. STMesh.Grade (the sweep loop of refine_grading, code-shaped) from every mesh within a
     primitive-bisection budget, P = 2*sigma in {2, 3, 4}: GradeInWindow, OnlyRefines, NoErr and
     the mesh invariants on the graded mesh; graph compared with real refine_grading runs.
  2. random histories (biases 0.2/0.5/0.8) followed by refine_grading, on uniform and
     non-uniform root grids; post-state judged by TraceSTMesh (clauses grade-window,
     only-refines, tiling, one-irregular, dyadic-descent, call-failed).
  3. the code-shaped model with GradeSkip = FALSE (the loop as originally written) started from
     a recorded failing mesh reproduces the abort at mesh.py:440 (defect model, diagnostic).
"""
import json
import os
import random
from fractions import Fraction as F

import mpmath

from .. import explore_mesh as ex
from .. import meshlib as ml
from .. import record_mesh as rm
from .. import tlc
from ..common import Ctx, ROOT

C19_CLAUSES = {"grade-window", "only-refines", "tiling", "one-irregular", "dyadic-descent", "call-failed",
               "duplicate-leaves", "levels", "parent-chain", "leaf-bookkeeping", "index-unique", "vertex-unique"}

CFG = """CONSTANTS Nt = %(Nt)d Nx = %(Nx)d Glue = %(Glue)s MaxL = %(MaxL)d Budget = %(Budget)d
  Ops = {"bisect", "grade"} SortSpace = TRUE GradeSkip = %(Skip)s P = %(P)d CTn = 4 CSn = 4
SPECIFICATION Spec
VIEW View
CHECK_DEADLOCK FALSE
INVARIANT DyadicDescent
INVARIANT Tiles
INVARIANT OneIrregular
INVARIANT NoErr
PROPERTY OnlyRefines
PROPERTY GradeInWindow
"""


def exhaustive(ctx, lay_spec, budget, P):
    Nt, Nx, glue = lay_spec
    maxl = 2 * budget + 4
    lay = ml.Layout.uniform(Nt, Nx, glue, maxl)
    lay.sigma = P / 2 if P % 2 else P // 2
    tag = "%s-b%d-P%d" % (lay.key(), budget, P)
    dot = os.path.join(tlc._scratch(), "graph")
    cfg = CFG % {"Nt": Nt, "Nx": Nx, "Glue": "TRUE" if glue else "FALSE", "MaxL": maxl, "Budget": budget,
                 "P": P, "Skip": "TRUE"}
    res = tlc.run_tlc("STMesh", cfg, timeout=3000, extra=["-dump", "dot", dot])
    st = {"layout": tag, "tlc": res.stats()}
    if res.machinery_error:
        ctx.machinery_error("%s: %s" % (tag, res.machinery_error))
        return st
    if not res.ok:
        ctx.violation("model:%s:%s" % (tag, res.violated), "STMesh.Grade violates %s on %s" % (res.violated, tag),
                      {"layout": lay_spec, "budget": budget, "P": P, "tlc_output_tail": res.output[-3000:]})
        return st
    nodes, sedges = ex.read_dot(dot + ".dot")
    import shutil
    shutil.rmtree(os.path.dirname(dot), ignore_errors=True)
    S_spec = {v[0] for v in nodes.values()}
    g = ex.explore(lay, {"bisect", "grade"}, budget)
    S_code = set(g["states"])
    st.update({"spec_states": len(S_spec), "code_states": len(S_code), "spec_edges": len(sedges),
               "code_edges": len(g["edges"]), "real_calls_failed": len(g["fails"]), "out_of_model": g["out_of_model"]})
    for path, op, exc in g["fails"]:
        ctx.violation("call-failed:%s:%s" % (op[0], exc.split(":")[0]),
                      "%s raised %s after history %r on %s" % (op[0], exc, path, lay.key()),
                      {"layout": lay_spec, "maxl": maxl, "sigma": lay.sigma, "ops": list(path) + [op], "exc": exc})
    if (S_spec != S_code or sedges != g["edges"]) and not g["fails"]:
        only_code = S_code - S_spec
        if only_code:
            sid = next(iter(only_code))
            ctx.violation("grade-result:" + tag,
                          "refine_grading of the real mesh produces a mesh the specification does not (history %r)"
                          % (g["states"][sid][0],),
                          {"layout": lay_spec, "maxl": maxl, "sigma": lay.sigma, "ops": list(g["states"][sid][0])})
        else:
            # the property fixes only post-conditions, not which graded mesh: a different (valid) graded mesh is drift
            ctx.spec_drift("%s: graded meshes differ from the model's (spec-only %d)" % (tag, len(S_spec - S_code)))
    # measurements of the graded real meshes judged by TLC
    events, index = [], []
    # every state within the budget is graded by the real call and the result judged (also when the result coincides with a
    # state reached otherwise, e.g. when grading returns the mesh unchanged)
    consts = {"p": P, "ct": [-4] * (Nt * Nx), "cs": [-4] * (Nt * Nx)}
    for sid, (path, order) in g["states"].items():
        if path and path[-1][0] == "grade":
            continue
        if len(order) > Nt * Nx + budget:
            continue
        pre = ml.replay(lay, path)
        events.append(rm.reset_event(pre, lay, False))
        index.append(None)
        try:
            ev = graded_event(pre, lay, lay.sigma, 600)
        except Exception as exn:
            ev = {"k": "grade", "exc": repr(exn)[:100], "post": []}
        if ev is None:
            events.pop(), index.pop()
            continue
        ev.update(consts)
        ev.pop("nb", None), ev.pop("bd", None)
        events.append(ev)
        index.append(tuple(path) + (("grade", lay.sigma),))
    if events:
        bad, jres = rm.judge(lay, events, timeout=3000)
        st["judged_graded_meshes"] = len(events) // 2
        if jres.machinery_error:
            ctx.machinery_error("%s judge: %s" % (tag, jres.machinery_error))
        else:
            for l, clause in bad:
                _report(ctx, clause, tag, {"layout": lay_spec, "maxl": maxl, "sigma": lay.sigma, "ops": list(index[l - 1] or ())})
    return st


def _report(ctx, clause, tag, replay, exc=""):
    if clause.startswith("d:"):
        ctx.spec_drift("%s: %s" % (tag, clause))
    elif clause in C19_CLAUSES:
        key = "%s:%s" % (clause, tag) if clause != "call-failed" else "call-failed:grade:%s" % (exc.split(":")[0],)
        ctx.violation(key, "clause %s fails (%s) %s" % (clause, tag, exc), replay)


class TooBig(Exception):
    pass


def grade_consts(lay, sigma):
    """integer thresholds per root (DESIGN C19); None if a root sits on a rounding knife edge"""
    mpmath.mp.dps = 50
    P = int(round(2 * sigma))
    ct, cs = [], []
    for j in range(lay.Nt):
        for i in range(lay.Nx):
            Ht = mpmath.mpf(lay.tgrid[j + 1].numerator) / lay.tgrid[j + 1].denominator - mpmath.mpf(lay.tgrid[j].numerator) / lay.tgrid[j].denominator \
                if isinstance(lay.tgrid[j], F) else mpmath.mpf(lay.tgrid[j + 1]) - mpmath.mpf(lay.tgrid[j])
            Hx = mpmath.mpf(lay.xgrid[i + 1].numerator) / lay.xgrid[i + 1].denominator - mpmath.mpf(lay.xgrid[i].numerator) / lay.xgrid[i].denominator \
                if isinstance(lay.xgrid[i], F) else mpmath.mpf(lay.xgrid[i + 1]) - mpmath.mpf(lay.xgrid[i])
            c2 = 2 * (mpmath.log(Ht, 2) - sigma * mpmath.log(Hx, 2) - 2)
            if abs(c2 - mpmath.nint(c2)) < 1e-9 and not (_is_pow2(Ht) and _is_pow2(Hx)):
                return None
            ct.append(int(mpmath.floor(c2 + mpmath.mpf(10) ** -30 if abs(c2 - mpmath.nint(c2)) < 1e-20 else c2)))
            d2 = -c2 - 8
            cs.append(int(mpmath.floor(d2 + mpmath.mpf(10) ** -30 if abs(d2 - mpmath.nint(d2)) < 1e-20 else d2)))
    return {"p": P, "ct": ct, "cs": cs}


def _is_pow2(x):
    l = mpmath.log(x, 2)
    return abs(l - mpmath.nint(l)) < mpmath.mpf(10) ** -40


def graded_event(mesh, lay, sigma, cap):
    """run the real refine_grading under a leaf cap; returns the event or None if the graded mesh is too big"""
    from src.mesh import Mesh
    consts = grade_consts(lay, sigma)
    orig = Mesh.refine_axis

    def capped(self, elem, ax):
        if len(self.leaf_elements) > cap:
            raise TooBig()
        return orig(self, elem, ax)
    Mesh.refine_axis = capped
    try:
        try:
            ev = rm.do_event(mesh, lay, ("grade", sigma), with_nbrs=False, grade_consts=consts)
        finally:
            Mesh.refine_axis = orig
    except TooBig:
        return None
    if ev["exc"].startswith("TooBig"):
        return None
    return ev


def random_traces(ctx, tier, seed):
    rng = random.Random(seed * 31337 + 11)
    quick = tier == "quick"
    n_hist = 10 if quick else 60
    max_steps = 60 if quick else 200
    cap = 900 if quick else 6000
    layouts = [
        ml.Layout.uniform(1, 1, True, 14), ml.Layout.uniform(1, 4, True, 14), ml.Layout.uniform(2, 2, False, 14),
        ml.Layout([F(0), F(1, 2), F(3, 2)], [F(0), F(1), F(3), F(4)], True, 14),
        ml.Layout([F(0), F(1)], [F(0), F(1, 3), F(1), F(2)], True, 14),
        ml.Layout.uniform(1, 6, True, 14),
        # time slabs of very different lengths (a leaf of the long slab is longer than a coarser leaf of the short one)
        ml.Layout([F(0), F(1, 8), F(17, 8)], [F(0), F(1), F(2)], False, 14),
        ml.Layout([F(0), F(2), F(33, 16)], [F(0), F(1), F(2), F(3)], True, 14),
    ]
    total = graded = toobig = knife = 0
    stats, samples = [], []
    for lay in layouts:
        events, meta = [], []
        for h in range(n_hist):
            sigma = [1, 1.5, 2][h % 3]
            if grade_consts(lay, sigma) is None:
                knife += 1
                continue
            bias = [0.2, 0.5, 0.8][(h // 3) % 3]
            steps = rng.randrange(3, max_steps)
            mesh = lay.new_mesh()
            ops = []
            for s in range(steps):
                order = ml.project(mesh, lay)
                cands = [k for k in order if k[4] < 8 and k[5] < 6]
                if not cands:
                    break
                k = rng.choice(cands)
                ax = 1 if rng.random() < bias else 0
                op = ("bisect", k, ax)
                ml.apply_op(mesh, lay, op)
                ops.append(op)
            pre = rm.reset_event(mesh, lay, False)
            ev = graded_event(mesh, lay, sigma, cap)
            if ev is None:
                toobig += 1
                continue
            events += [pre, ev]
            meta += [None, (ops, sigma)]
            graded += 1
            # the same mesh object graded again with another exponent after a few more bisections
            if ev["exc"] == "" and len(ev["post"]) < cap // 3 and h % 2 == 0:
                sigma2 = [s_ for s_ in (1, 1.5, 2) if s_ != sigma][h % 2]
                ops2 = list(ops) + [("grade", sigma)]
                for s in range(3):
                    order = ml.project(mesh, lay)
                    cands = [k for k in order if k[4] < 9 and k[5] < 7]
                    if not cands:
                        break
                    op = ("bisect", rng.choice(cands), rng.randrange(2))
                    ml.apply_op(mesh, lay, op)
                    ops2.append(op)
                pre2 = rm.reset_event(mesh, lay, False)
                ev2 = graded_event(mesh, lay, sigma2, cap)
                if ev2 is not None:
                    events += [pre2, ev2]
                    meta += [None, (ops2, sigma2)]
                    graded += 1
        if not events:
            continue
        bad, jres = rm.judge(lay, events, timeout=3000)
        total += len(events)
        stats.append({"layout": lay.key(), "graded": len(events) // 2, "tlc": jres.stats(),
                      "max_leaves": max(len(e["post"]) for e in events)})
        if jres.machinery_error:
            ctx.machinery_error("grading traces %s: %s" % (lay.key(), jres.machinery_error))
            continue
        for l, clause in bad:
            ops, sigma = meta[l - 1] if meta[l - 1] else ((), None)
            _report(ctx, clause, "trace-" + lay.key(),
                    {"tgrid": [str(t) for t in lay.tgrid], "xgrid": [str(x) for x in lay.xgrid], "glue": lay.glue,
                     "maxl": lay.maxl, "sigma": sigma, "ops": [list(o) for o in ops], "exc": events[l - 1]["exc"]},
                    exc=events[l - 1]["exc"])
        if not samples:
            samples = [{"history_len": len(meta[1][0]), "sigma": meta[1][1], "leaves_before": len(events[0]["post"]),
                        "leaves_after": len(events[1]["post"]), "consts": {k: events[1].get(k) for k in ("p", "ct", "cs")}}]
    return {"events": total, "graded_meshes": graded, "too_big_dropped": toobig, "knife_edge_layouts_skipped": knife,
            "per_layout": stats, "samples": samples}


DEFECT_MC = """---- MODULE MCGradeDefect ----
EXTENDS STMesh
SeedOrder == %s
====
"""
DEFECT_CFG = """CONSTANTS Nt = %(Nt)d Nx = %(Nx)d Glue = %(Glue)s MaxL = %(MaxL)d Budget = 100000
  Ops = {"grade"} SortSpace = TRUE GradeSkip = %(Skip)s P = %(P)d CTn = 4 CSn = 4
  RootSeq <- SeedOrder
SPECIFICATION Spec
CHECK_DEADLOCK FALSE
INVARIANT NoErr
"""


def deep_anisotropy(ctx, quick):
    """a corner leaf bisected many times in one direction only: grading needs more than a dozen sweeps and ends with tens of
    thousands of leaves, all of which must lie inside the window (judged by the window clause alone)"""
    lay = ml.Layout.uniform(1, 1, False, 15)
    out = []
    for ax, n, sigma in (((1, 7, 2), (0, 14, 1)) if not quick else ((1, 7, 2),)):
        mesh = lay.new_mesh()
        ops = []
        for _ in range(n):
            k = [q for q in ml.project(mesh, lay) if q[0] == 0 and q[2] == 0][0]
            op = ("bisect", k, ax)
            ml.apply_op(mesh, lay, op)
            ops.append(op)
        pre = rm.reset_event(mesh, lay, False)
        consts = grade_consts(lay, sigma)
        ev = {"k": "grade", "exc": "", "big": True}
        try:
            ml.apply_op(mesh, lay, ("grade", sigma))
            ev["post"] = [list(k) for k in ml.project(mesh, lay)]
        except Exception as ex:
            ev["exc"] = rm.exc_text(ex)
            ev["post"] = []
        ev.update(consts)
        bad, jres = rm.judge(lay, [pre, ev], timeout=2400)
        st = {"history": "%d bisections of the corner leaf along axis %d, sigma %g" % (n, ax, sigma), "graded_leaves": len(ev["post"]), "judge_tlc": jres.stats()}
        if jres.machinery_error:
            ctx.machinery_error("deep anisotropy judge: " + jres.machinery_error)
        else:
            for l, clause in bad:
                _report(ctx, clause, "deep-anisotropy-ax%d-n%d" % (ax, n), {"layout": [1, 1, False], "maxl": 15, "sigma": sigma, "ops": [list(o) for o in ops] + [["grade", sigma]]},
                        ev["exc"])
        out.append(st)
    return out


def defect_model(ctx):
    """The loop as originally written (GradeSkip = FALSE) aborts from a recorded mesh; the repaired loop does not."""
    path = os.path.join(ROOT, "findings", "C19-grading-assert", "seed_mesh.json")
    if not os.path.exists(path):
        return {"skipped": "no recorded seed mesh"}
    rec = json.load(open(path))
    order = "<<" + ", ".join(ml.tla_leaf(k) for k in rec["order"]) + ">>"
    out = {}
    for skip in (False, True):
        cfg = DEFECT_CFG % {"Nt": rec["Nt"], "Nx": rec["Nx"], "Glue": "TRUE" if rec["glue"] else "FALSE",
                            "MaxL": rec["maxl"], "P": rec["P"], "Skip": "TRUE" if skip else "FALSE"}
        res = tlc.run_tlc("MCGradeDefect", cfg, timeout=600, aux_files={"MCGradeDefect.tla": DEFECT_MC % order})
        if res.machinery_error:
            ctx.machinery_error("defect model: " + res.machinery_error)
            return out
        out["GradeSkip=%s" % skip] = "NoErr violated" if res.violated else "no error"
    if out.get("GradeSkip=False") != "NoErr violated" or out.get("GradeSkip=True") != "no error":
        ctx.spec_drift("defect model of refine_grading no longer reproduces the recorded abort: %r" % out)
    return out


def run(prop, tier, seed):
    ctx = Ctx("C19", tier, seed)
    quick = tier == "quick"
    fam = [((1, 1, False), 3, 5), ((1, 2, True), 3, 4), ((1, 3, True), 2, 4), ((2, 2, False), 2, 3), ((2, 1, True), 3, 4)]
    ex_stats = []
    for lay_spec, bq, bt in fam:
        for P in (2, 3, 4):
            st = exhaustive(ctx, lay_spec, bq if quick else bt, P)
            ex_stats.append(st)
            ctx.log("exhaustive %s" % st)
    tr = random_traces(ctx, tier, seed)
    # the unmodified driver's own grading calls after adaptive refinement
    from .. import loop_lib
    quick_ = tier == "quick"
    drv = loop_lib.driver_block(ctx, [("Dirichlet", "UnitSquare", 0, "anisotropic", "sobolev", 1, 2 if quick_ else 3),
                                      ("MildSingular", "LShape", 0, "isotropic", "sobolev", 1, 2 if quick_ else 3, 0, 0, 0.9, 1.5)],
                                {"grade"}, C19_CLAUSES)
    ctx.log("driver %s" % drv)
    deep = deep_anisotropy(ctx, quick_)
    ctx.log("deep anisotropy %s" % deep)
    ctx.log("traces %s" % {k: v for k, v in tr.items() if k != "per_layout"})
    dm = defect_model(ctx)
    ctx.log("defect model %s" % dm)
    ctx.cov = {
        "states": sum(s["tlc"]["distinct"] for s in ex_stats), "transitions": sum(s["tlc"]["generated"] for s in ex_stats),
        "traces_validated_against_impl": sum(s.get("judged_graded_meshes", 0) for s in ex_stats) + tr["graded_meshes"],
        "samples": tr["samples"] or [ex_stats[0]],
        "exhaustive": True, "exhaustive_runs": ex_stats, "random_traces": tr, "defect_model": dm, "driver_runs": drv, "deep_anisotropy": deep,
        "rule": "refine_grading (sigma in {1, 1.5, 2}, K = 4) from every mesh within the primitive-bisection budget on five root "
                "layouts (TLC graph == real graph, graded meshes judged by TLC) and after random histories of up to 200 bisections",
    }
    ctx.assumptions = [
        "window tests are evaluated in integer form 2*lt <= CT + P*lx, P*lx - 2*lt <= CS with per-root thresholds computed at 50 digits; "
        "root layouts for which a threshold sits within 1e-9 of an integer without being exactly dyadic are skipped (none in the shipped family)",
        "graded meshes above the leaf cap are dropped and counted (too_big_dropped)",
    ]
    return ctx.finish()
