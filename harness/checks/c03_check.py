"""C03: Galerkin orthogonality -- the estimator's residual integrates to zero per element.

AdaptiveLoop.tla models the driver's protocol and configuration table (TLC: default flags never
fail, the residual is built from a solved density, rejected combinations fail in the helper; the
NameError of --no-l2 / --no-sobolev is exhibited in a diagnostic configuration).  For every accepted
(problem, domain) and both values of the straight-panel switch the unmodified example.py is run up
to its first residual (runtime wrappers, own subprocess), and the driver's entry points are
executed on randomly refined meshes; per leaf |int r| <= 5e-5 int |r| + 1e-12 with an independent
graded rule resolving the kinks; the linear system is checked; everything is judged by TLC
(TraceLoop) including coverage of all 24 combinations.
"""
import json
import os
import random
import re
import shutil
import subprocess
import tempfile
from concurrent.futures import ThreadPoolExecutor

from .. import tlc
from ..common import Ctx, ROOT, env_for_repo

COMBOS = [("Smooth", "UnitSquare"), ("Smooth", "PiSquare"), ("Singular", "UnitSquare"), ("Singular", "LShape")] + \
    [(p, d) for p in ("Dirichlet", "MildSingular") for d in ("UnitSquare", "PiSquare", "LShape", "Circle")]
CFG_M = "CONSTANTS MaxIter = 2\nSPECIFICATION Spec\nINVARIANT DefaultsRun\nINVARIANT ResidualAfterSolve\nINVARIANT RejectedFailEarly\nINVARIANT ProtocolFixed\nINVARIANT ProtocolPrefix\nCHECK_DEADLOCK FALSE\n"
CFG_D = "CONSTANTS MaxIter = 1\nSPECIFICATION Spec\nINVARIANT AnyFlagsRun\nCHECK_DEADLOCK FALSE\n"
CFG_S = ("CONSTANTS MaxRuns = 3\nKeyHasProblem = TRUE\nInlineAtStart = TRUE\nDomains = {\"UnitSquare\", \"LShape\"}\nQuads <- QuadSet\n"
         "SPECIFICATION Spec\nINVARIANT OwnData\nINVARIANT OwnEstimates\nINVARIANT FilesServeAllReaders\nINVARIANT NoForeignFile\nCHECK_DEADLOCK FALSE\n")
MC_S = "---- MODULE MCSessions ----\nEXTENDS Sessions\nQuadSet == {<<5, \"3_5_5\">>, <<3, \"3_5_5\">>, <<5, \"1_3_3\">>}\n====\n"
CFG_T = "CONSTANTS MaxIter = 1\nSPECIFICATION TSpec\nINVARIANT Report\nPOSTCONDITION Done\nCHECK_DEADLOCK FALSE\n"


def worker(args):
    env = env_for_repo()
    env["OMP_NUM_THREADS"] = env["OPENBLAS_NUM_THREADS"] = "1"
    cmd = ["/venv/bin/python", os.path.join(ROOT, "harness", "c03_worker.py")] + [str(a) for a in args]
    try:
        p = subprocess.run(cmd, env=env, stdout=subprocess.PIPE, stderr=subprocess.PIPE, text=True, timeout=1500, cwd=os.path.join(ROOT, ".scratch"))
        out, errtxt = p.stdout, p.stderr[-500:]
    except subprocess.TimeoutExpired:
        out, errtxt = "", "timeout"
    recs = [json.loads(l[2:]) for l in out.split("\n") if l.startswith("@@")]
    if not any(r["k"] == "run" for r in recs):
        recs.append({"k": "run", "mode": args[0], "problem": args[1], "domain": args[2], "exact": args[3] == 1, "exc": "worker died: " + errtxt[-200:]})
    return args, recs


def run(prop, tier, seed):
    ctx = Ctx("C03", tier, seed)
    rng = random.Random(seed + 3)
    quick = tier == "quick"
    os.makedirs(os.path.join(ROOT, ".scratch"), exist_ok=True)
    res = tlc.run_tlc("AdaptiveLoop", CFG_M, timeout=900)
    model = {"tlc": res.stats()}
    if res.machinery_error:
        ctx.machinery_error("AdaptiveLoop.tla: " + res.machinery_error)
    elif not res.ok:
        ctx.violation("model:AdaptiveLoop:%s" % res.violated, "AdaptiveLoop.tla violates %s" % res.violated, {"tlc_output_tail": res.output[-2000:]})
    rd = tlc.run_tlc("AdaptiveLoop", CFG_D, timeout=900)
    model["flag_space_diagnostic"] = "AnyFlagsRun violated (NameError with --no-l2/--no-sobolev, outside the listed properties)" if rd.violated else "no failure"
    jobs = []
    for p, d in COMBOS:
        for exact in (0, 1):
            jobs.append(("example", p, d, exact))
            nref = [5] if quick else [6, 14, 24]
            if quick and exact == 0 and (p, d) == ("Dirichlet", "UnitSquare"):
                nref = [5, 14]       # one deeper mesh (non-adjacent slabs, level gaps)
            if exact == 0 and (p, d) in (("Dirichlet", "UnitSquare"), ("MildSingular", "Circle"), ("Smooth", "PiSquare")):
                nref = nref + [-1]   # slab-graded mesh (nested space intervals in non-adjacent slabs)
            for n in nref:
                if quick and (exact == 1 and d in ("Circle",)):
                    continue
                jobs.append(("pipeline", p, d, exact, seed * 100 + len(jobs), n))
    # several driver runs from one working directory (Sessions.tla): the cache directory persists
    sessions = [("Singular", "UnitSquare", 0, "Smooth"), ("Smooth", "UnitSquare", 0, "Singular"),
                ("Singular", "UnitSquare", 1, "Smooth"), ("Smooth", "UnitSquare", 1, "Singular"),
                ("MildSingular", "UnitSquare", 0, "Dirichlet"), ("Dirichlet", "Circle", 0, "MildSingular"),
                ("Smooth", "PiSquare", 0, "Dirichlet"), ("Singular", "LShape", 0, "Singular")]
    if not quick:
        sessions += [("Singular", "UnitSquare", 0, "Dirichlet,Smooth"), ("Smooth", "UnitSquare", 0, "Singular,Smooth"),
                     ("Dirichlet", "LShape", 1, "Singular"), ("MildSingular", "PiSquare", 1, "Smooth")]
    for p, d, exact, prior in sessions:
        jobs.append(("session", p, d, exact, prior))
    CFG_S = globals()["CFG_S"] if not quick else globals()["CFG_S"].replace("MaxRuns = 3", "MaxRuns = 2")
    rs = tlc.run_tlc("MCSessions", CFG_S, timeout=900, aux_files={"MCSessions.tla": MC_S})
    model["sessions_tlc"] = rs.stats()
    if rs.machinery_error:
        ctx.machinery_error("Sessions.tla: " + rs.machinery_error)
    elif not rs.ok:
        ctx.violation("model:Sessions:%s" % rs.violated, "Sessions.tla violates %s" % rs.violated, {"tlc_output_tail": rs.output[-2000:]})
    rs2 = tlc.run_tlc("MCSessions", CFG_S.replace("InlineAtStart = TRUE", "InlineAtStart = FALSE"), timeout=900, aux_files={"MCSessions.tla": MC_S})
    model["sessions_tlc_files_for_V"] = rs2.stats()
    if not rs2.ok and not rs2.machinery_error:
        ctx.violation("model:Sessions:files:%s" % rs2.violated, "Sessions.tla (matrix files) violates %s" % rs2.violated, {"tlc_output_tail": rs2.output[-2000:]})
    rsd = tlc.run_tlc("MCSessions", CFG_S.replace("KeyHasProblem = TRUE", "KeyHasProblem = FALSE"), timeout=900, aux_files={"MCSessions.tla": MC_S})
    model["sessions_key_without_problem"] = "%s violated (as it must be)" % rsd.violated if rsd.violated in ("OwnData", "FilesServeAllReaders") else "NOT violated"
    if rsd.violated not in ("OwnData", "FilesServeAllReaders") and not rsd.machinery_error:
        ctx.machinery_error("Sessions.tla is insensitive to the cache key (diagnostic configuration not violated)")
    # complete iterations of the unmodified driver (assemble ... refine [grade]) on the meshes it produces itself
    from .. import loop_lib
    loops = [("Dirichlet", "UnitSquare", 0, "uniform", "sobolev", 0, 2, 0, 0), ("Smooth", "UnitSquare", 1, "isotropic", "sobolev-l2", 0, 2, 1, 1),
             ("MildSingular", "Circle", 0, "anisotropic", "sobolev", 0, 3, 0, 0), ("Singular", "LShape", 0, "anisotropic", "sobolev", 1, 2, 0, 1),
             ("Dirichlet", "UnitSquare", 0, "uniform", "sobolev", 1, 2, 0, 0)]
    if not quick:
        loops += [("Smooth", "PiSquare", 0, "anisotropic", "hierarchical", 1, 3, 0, 1), ("Singular", "UnitSquare", 1, "isotropic", "sobolev", 1, 3, 1, 0),
                  ("Dirichlet", "Circle", 0, "uniform", "sobolev", 1, 2, 0, 0), ("MildSingular", "LShape", 1, "anisotropic", "sobolev-l2", 0, 4, 0, 0)]
    est_sessions = [[("Dirichlet", "UnitSquare", 0, "5355", 1), ("Dirichlet", "UnitSquare", 0, "5355", 1), ("Dirichlet", "UnitSquare", 0, "3355", 0),
                     ("MildSingular", "UnitSquare", 0, "5355", 1), ("Dirichlet", "UnitSquare", 0, "5133", 1)],
                    [("Smooth", "UnitSquare", 1, "5355", 0), ("Singular", "UnitSquare", 1, "5355", 0), ("Smooth", "UnitSquare", 1, "5355", 1)]]
    with ThreadPoolExecutor(max_workers=14) as ex:
        fsess = [ex.submit(loop_lib.run_session, s_) for s_ in est_sessions]
        floop = [ex.submit(loop_lib.run_loop, *a) for a in loops]
        results = list(ex.map(worker, jobs))
        for f in fsess:
            results.append(f.result())
        for f in floop:
            a, rr = f.result()
            results.append((("loop",) + tuple(a), [r for r in rr if r["k"] != "mesh"]))
    recs = []
    index = []
    for args, rr in results:
        for r in rr:
            recs.append(r)
            index.append(args)
    work = tempfile.mkdtemp(prefix="c03j.", dir=tlc._scratch())
    path = os.path.join(work, "trace.json")
    json.dump(recs, open(path, "w"))
    jres = tlc.run_tlc("TraceLoop", CFG_T, workers=1, timeout=1800, env={"TRACE_FILE": path})
    shutil.rmtree(work, ignore_errors=True)
    mm = re.search(r'<<\s*"BAD",\s*(\{.*?\}),\s*"MISSING",\s*(\{.*?\})\s*>>', jres.output, flags=re.S)
    worst = 0
    if not mm:
        ctx.machinery_error("TraceLoop: " + (jres.machinery_error or jres.output[-300:]))
    else:
        for tpl in sorted(tlc.parse_value(mm.group(1))):
            r, args = recs[tpl[0] - 1], index[tpl[0] - 1]
            if tpl[1].startswith("d:"):
                ctx.spec_drift("%s in run %r: %r" % (tpl[1], args, r))
                continue
            key = "%s:%s:%s:%s" % (tpl[1], r.get("problem"), r.get("domain"), "exact" if r.get("exact") else "quad")
            if tpl[1] == "run-failed":
                key = "run-failed:%s" % r.get("exc", "").split(":")[0 if not r.get("exc", "").startswith("residual evaluation") else 1].strip()
            ctx.violation(key, "%s for %s/%s (switch %s, %s): %r" % (tpl[1], r.get("problem"), r.get("domain"), r.get("exact"), args[0], r),
                          {"worker_args": list(args), "record": r})
        missing = tlc.parse_value(mm.group(2))
        failed_runs = {(r["problem"], r["domain"], r["exact"]) for r in recs if r["k"] == "run" and r["exc"]}
        missing = [m for m in missing if tuple(m) not in failed_runs]
        if missing:
            ctx.machinery_error("combinations never exercised: %r" % sorted(map(str, missing))[:4])
    leafs = [r for r in recs if r["k"] == "leaf"]
    worst = max([r["dev"] for r in leafs] or [0])
    ctx.cov = {"evaluations": len(leafs), "distinct_nontrivial": len({(r["problem"], r["domain"], r["exact"], r["mesh"]) for r in leafs}),
               "rule": "12 accepted (problem, domain) combinations x switch x {unmodified example.py up to its first residual, driver entry points on randomly refined meshes}; "
                       "one record per leaf; distinct_nontrivial = (problem, domain, switch, mesh) runs",
               "samples": leafs[:2], "model": model, "runs": len(jobs) + len(loops), "driver_loops": [list(a) for a in loops], "phase_events": sum(1 for r in recs if r["k"] == "phase"),
               "worst_dev_millionths_of_bound": worst, "judge_tlc": jres.stats()}
    ctx.assumptions = ["element integrals of r and |r|: 8-point Gauss-Legendre panels graded (3 levels, ratio 1/4) towards both ends of every sub-interval cut by the mesh lines crossing the element",
                       "example.py is executed unmodified under runpy in a subprocess with --no-h-h2 and stopped when the residual closure has been built"]
    return ctx.finish()
