"""C09: Sobolev and weighted-L2 indicators equal their definition on every patch.

  1. Estimators.tla (on STMesh states): patches well formed, contiguous unions (through the seam
     where that is the shared side), neighbour-symmetry shortcut == direct sum, no self neighbour.
  2. real ErrorEstimator on refined meshes of every closed curve with separable residuals
     r(t, x) = p(t) g(gamma(x)) (p polynomial, g trigonometric in the embedded coordinates, or
     polynomial in the parameter on one straight piece): per element, space / time / weighted-L2
     indicators against an independent evaluation on the *geometric* patches (exact rational
     H^{1/4} and polynomial H^{1/2}, graded reference with Euclidean distances otherwise);
     serial == pool bitwise; shortcut == direct sum; a rotation of curve and residual permutes
     the indicators.  Records judged by TLC (Judge.tla) with class coverage; the arguments the real
     seminorm routines receive are compared with the model's patches (diagnostic).
"""
import contextlib
import io
import math
import random
from fractions import Fraction as F

import numpy as np

from .. import judge as jd
from .. import meshlib as ml
from .. import tlc
from ..common import Ctx, setup_path
from ..oracles import heat_ref as hr
from ..oracles import slobo_ref as sr
from .c13_check import ParamLayout

CFG = """CONSTANTS Nt = %(Nt)d Nx = %(Nx)d Glue = TRUE MaxL = %(MaxL)d Budget = %(Budget)d
  Ops = {"bisect"} SortSpace = TRUE GradeSkip = TRUE P = 4 CTn = 4 CSn = 4
SPECIFICATION Spec
CHECK_DEADLOCK FALSE
INVARIANT PatchesWellFormed
INVARIANT AccumulateAgrees
INVARIANT NoSelfNeighbour
"""

GLX = np.polynomial.legendre.leggauss(24)
GLY = np.polynomial.legendre.leggauss(25)
R = hr.Rules(n=16, q=0.3, levels=22)


def gl(a, b, rule):
    x, w = rule
    return a + (b - a) * (x + 1) / 2, (b - a) * w / 2


class Geo:
    """a leaf with real coordinates and its piece"""

    def __init__(self, e, rc):
        self.t0, self.t1 = map(float, e.time_interval)
        self.x0, self.x1 = map(float, e.space_interval)
        self.piece = rc.piece_of(self.x0, self.x1)


def h12_same(rc, piece, a, b, g):
    x, wx = gl(a, b, GLX)
    y, wy = gl(a, b, GLY)
    gx, gy = g(rc.point(x, piece)), g(rc.point(y, piece))
    d2 = rc.dist2(x, piece, y, piece)
    return float(wx @ (((gx[:, None] - gy[None, :]) ** 2 / d2) @ wy))


def h12_adjacent(rc, pl_, l0, l1, pr, r0, r1, g):
    """left interval [l0,l1] on piece pl_, right [r0,r1] on piece pr, joined at l1 ~ r0 (corner or seam allowed)"""
    u, wu = (l1 - l0) * R.s0, (l1 - l0) * R.w0
    v, wv = (r1 - r0) * R.s0, (r1 - r0) * R.w0
    X = rc.point(l1 - u, pl_)
    Y = rc.point(r0 + v, pr)
    if rc.circle:
        d2 = (2 * np.sin(0.5 * (u[:, None] + v[None, :]))) ** 2
    elif pl_ == pr:
        d2 = (u[:, None] + v[None, :]) ** 2
    else:
        dl, dr = rc.dirs[pl_], rc.dirs[pr]
        Dx = -dl[0] * u[:, None] - dr[0] * v[None, :]
        Dy = -dl[1] * u[:, None] - dr[1] * v[None, :]
        d2 = Dx ** 2 + Dy ** 2
    return float(wu @ (((g(X)[:, None] - g(Y)[None, :]) ** 2 / d2) @ wv))


def int_g2(rc, piece, a, b, g):
    x, w = gl(a, b, GLX)
    return float(w @ g(rc.point(x, piece)) ** 2)


def poly_int_sq(c, a, b):
    """int_a^b p(t)^2 dt exactly (coefficients floats that are small integers)"""
    sq = {}
    for i, u in enumerate(c):
        for j, v in enumerate(c):
            sq[i + j] = sq.get(i + j, F(0)) + F(u) * F(v)
    A, B = F(a), F(b)
    return float(sum(v * (B ** (k + 1) - A ** (k + 1)) / (k + 1) for k, v in sq.items()))


def poly_affine(c, a, h):
    """coefficients of P(s) = p(a + h s)"""
    A, H = F(a), F(h)
    out = [F(0)] * len(c)
    for k, ck in enumerate(c):
        for i in range(k + 1):
            out[i] += F(ck) * math.comb(k, i) * A ** (k - i) * H ** i
    return out


def reference(rc, lay, mesh, pc, g):
    """per leaf: (space indicator, time indicator, l2 time, l2 space) from the geometric definition"""
    elems = list(mesh.leaf_elements)
    keys = [ml.leaf_tuple(e, lay) for e in elems]
    S = set(keys)
    geo = {k: Geo(e, rc) for k, e in zip(keys, elems)}
    out = []
    Lk = lay.Nx * lay.U
    for k in keys:
        e = geo[k]
        sp = 0.0
        for f_k in [k] + sorted(ml.nbr_across(S, k, 2, lay) | ml.nbr_across(S, k, 4, lay)):
            f = geo[f_k]
            ta, tb = max(e.t0, f.t0), min(e.t1, f.t1)
            it = poly_int_sq(pc, ta, tb)
            if f_k == k:
                sp += it * h12_same(rc, e.piece, e.x0, e.x1, g)
                continue
            # left / right through the side they share (seam if that is where they touch)
            seam_ef = lay.glue and k[3] == Lk and f_k[2] == 0 and not k[2] == f_k[3]
            seam_fe = lay.glue and f_k[3] == Lk and k[2] == 0 and not f_k[2] == k[3]
            if seam_fe:
                left, right = f, e
            elif seam_ef:
                left, right = e, f
            else:
                left, right = (e, f) if e.x0 < f.x0 else (f, e)
            val = (h12_same(rc, left.piece, left.x0, left.x1, g) + h12_same(rc, right.piece, right.x0, right.x1, g)
                   + 2 * h12_adjacent(rc, left.piece, left.x0, left.x1, right.piece, right.x0, right.x1, g))
            sp += it * val
        tm = 0.0
        for f_k in [k] + sorted(ml.nbr_across(S, k, 1, lay) | ml.nbr_across(S, k, 3, lay)):
            f = geo[f_k]
            xa, xb = max(e.x0, f.x0), min(e.x1, f.x1)
            ta, tb = min(e.t0, f.t0), max(e.t1, f.t1)
            tm += int_g2(rc, e.piece, xa, xb, g) * sr.h14(poly_affine(pc, ta, tb - ta), tb - ta)
        l2 = poly_int_sq(pc, e.t0, e.t1) * int_g2(rc, e.piece, e.x0, e.x1, g)
        out.append((sp, tm, l2 / math.sqrt(e.t1 - e.t0), l2 / (e.x1 - e.x0)))
    return out


class SeminormRecorder:
    def __init__(self):
        self.calls = []

    def __enter__(self):
        from src.norms import Slobodeckij
        self.cls = Slobodeckij
        self.o12, self.opw, self.o14 = Slobodeckij.seminorm_h_1_2, Slobodeckij.seminorm_h_1_2_pw, Slobodeckij.seminorm_h_1_4
        rec = self
        depth = [0]

        def w12(s, f, a, b, gamma=None):
            if depth[0] == 0:
                rec.calls.append(("h12", float(a), float(b)))
            return rec.o12(s, f, a, b, gamma)

        def wpw(s, f, a1, b1, g1, a2, b2, g2):
            rec.calls.append(("pw", float(a1), float(b1), float(a2), float(b2)))
            depth[0] += 1
            try:
                return rec.opw(s, f, a1, b1, g1, a2, b2, g2)
            finally:
                depth[0] -= 1

        def w14(s, f, a, b):
            rec.calls.append(("h14", float(a), float(b)))
            return rec.o14(s, f, a, b)
        Slobodeckij.seminorm_h_1_2, Slobodeckij.seminorm_h_1_2_pw, Slobodeckij.seminorm_h_1_4 = w12, wpw, w14
        return self

    def __exit__(self, *a):
        self.cls.seminorm_h_1_2, self.cls.seminorm_h_1_2_pw, self.cls.seminorm_h_1_4 = self.o12, self.opw, self.o14


def refined_mesh(lay, rng, steps):
    mesh = lay.new_mesh()
    with contextlib.redirect_stdout(io.StringIO()):
        for _ in range(steps):
            e = rng.choice(list(mesh.leaf_elements))
            ax = rng.randrange(2)
            if e.h_x ** 2 / e.h_t > 8:
                ax = 1
            mesh.refine_axis(e, ax)
    return mesh


def run(prop, tier, seed):
    setup_path()
    ctx = Ctx("C09", tier, seed)
    rng = random.Random(seed + 9)
    quick = tier == "quick"
    from src.error_estimator import ErrorEstimator
    # 1. model
    models = []
    for (Nt, Nx, b) in ([(1, 3, 3), (2, 3, 2), (1, 4, 2)] if quick else [(1, 3, 5), (2, 3, 3), (1, 4, 4), (2, 4, 3)]):
        res = tlc.run_tlc("Estimators", CFG % {"Nt": Nt, "Nx": Nx, "MaxL": b + 2, "Budget": b}, timeout=3000)
        models.append({"layout": "%dx%dg" % (Nt, Nx), "budget": b, "tlc": res.stats()})
        if res.machinery_error:
            ctx.machinery_error("Estimators.tla: " + res.machinery_error)
        elif not res.ok:
            ctx.violation("model:Estimators:%s" % res.violated, "Estimators.tla violates %s" % res.violated, {"tlc_output_tail": res.output[-2500:]})
    ctx.log("models %s" % models)
    # 2. real estimator
    recs, stats, samples = [], [], []
    ORDER = 17
    for name, tunit, steps in (("UnitSquare", 1.0, 10), ("PiSquare", 4.0, 8), ("LShape", 1.0, 8), ("Circle", 1.0, 8)):
        lay = ParamLayout(name, 2, 12, tunit)
        rc = hr.RefCurve(name)
        mesh = refined_mesh(lay, rng, steps if quick else 3 * steps)
        elems = list(mesh.leaf_elements)
        with contextlib.redirect_stdout(io.StringIO()):
            est = ErrorEstimator(mesh, N_poly=ORDER)
        pc = [1.0, -0.5, 0.25][: rng.choice([2, 3])]
        co = [rng.choice([1.0, 2.0, -1.0]) for _ in range(3)]
        g = (lambda co: lambda P: np.sin(co[0] * P[0]) + np.cos(co[1] * P[1]) + 0.3 * co[2] * P[0] * P[1])(co)

        xr = {"lo": 0.0, "hi": 0.0}

        def residual(t, x_hat, gamma, pc=pc, g=g, xr=xr):
            t = np.asarray(t, float)
            xh = np.asarray(x_hat, float)
            # a residual is a function on the parametrisation [0, L] x [0, T] (the driver's own residual decides element
            # membership from x_hat): remember the range it is asked for
            if xh.size:
                xr["lo"], xr["hi"] = min(xr["lo"], float(xh.min())), max(xr["hi"], float(xh.max()))
            X = gamma(xh)
            return sum(c * t ** k for k, c in enumerate(pc)) * g(X)
        ref = reference(rc, lay, mesh, pc, g)
        with SeminormRecorder() as srx:
            with contextlib.redirect_stdout(io.StringIO()):
                direct_sp = [est.sobolev_space(e, residual)[0] for e in elems]
                direct_tm = [est.sobolev_time(e, residual)[0] for e in elems]
        with contextlib.redirect_stdout(io.StringIO()):
            l2 = [est.weighted_l2(e, residual) for e in elems]
            ser = est.estimate_sobolev(elems, residual, use_mp=False)
            pool = est.estimate_sobolev(elems, residual, use_mp=True)
            l2s = est.estimate_weighted_l2(elems, residual, use_mp=False)
            l2p = est.estimate_weighted_l2(elems, residual, use_mp=True)
        keys = [ml.leaf_tuple(e, lay) for e in elems]
        Lk = lay.Nx * lay.U
        for i, (k, e) in enumerate(zip(keys, elems)):
            touches_seam = k[2] == 0 or k[3] == Lk
            cls = "%s:%s" % (name, "seam" if touches_seam else "interior")
            rsp, rtm, r2t, r2x = ref[i]
            recs.append({"cls": "space:" + cls, "dev": jd.dev(direct_sp[i], rsp, 1e-4 * abs(rsp)), "value": repr(direct_sp[i]), "ref": repr(rsp), "elem": list(k), "curve": name})
            recs.append({"cls": "time:" + cls, "dev": jd.dev(direct_tm[i], rtm, 1e-4 * abs(rtm)), "value": repr(direct_tm[i]), "ref": repr(rtm), "elem": list(k), "curve": name})
            recs.append({"cls": "l2:" + name, "dev": max(jd.dev(l2[i][0], r2t, 1e-6 * abs(r2t)), jd.dev(l2[i][1], r2x, 1e-6 * abs(r2x))), "elem": list(k), "curve": name})
            # neighbour-symmetry shortcut == direct per-element sum
            recs.append({"cls": "shortcut:" + name, "dev": max(jd.dev(ser[i, 0], direct_tm[i], 1e-13 * abs(direct_tm[i])), jd.dev(ser[i, 1], direct_sp[i], 1e-13 * abs(direct_sp[i]))),
                         "elem": list(k), "curve": name})
        recs.append({"cls": "pool-bitwise:" + name, "ok": bool(np.array_equal(ser, pool) and np.array_equal(l2s, l2p)), "curve": name})
        Lreal = float(mesh.gamma_space.gamma_length)
        recs.append({"cls": "residual-asked-inside-parametrisation:" + name, "ok": bool(xr["lo"] >= -1e-9 and xr["hi"] <= Lreal + 1e-9), "curve": name,
                     "range": [xr["lo"], xr["hi"]], "L": Lreal})
        # the element list in another order (the caller decides the order): same numbers per element
        perm = list(range(len(elems)))
        rng.shuffle(perm)
        with contextlib.redirect_stdout(io.StringIO()):
            ser_p = est.estimate_sobolev([elems[j] for j in perm], residual, use_mp=False)
        wp = 0
        for pos, j in enumerate(perm):
            for col, d_ in ((0, direct_tm), (1, direct_sp)):
                wp = max(wp, jd.dev(ser_p[pos, col], d_[j], 1e-13 * abs(d_[j])))
        recs.append({"cls": "list-order:" + name, "dev": wp, "curve": name})
        # a second, different residual through the pool of the same estimator object: still the serial numbers
        res2 = (lambda residual: lambda t, x_hat, gamma: 1.0 + 2.0 * np.asarray(residual(t, x_hat, gamma)) ** 2)(residual)
        with contextlib.redirect_stdout(io.StringIO()):
            s2 = est.estimate_sobolev(elems, res2, use_mp=False)
            p2 = est.estimate_sobolev(elems, res2, use_mp=True)
            l2s2 = est.estimate_weighted_l2(elems, res2, use_mp=False)
            l2p2 = est.estimate_weighted_l2(elems, res2, use_mp=True)
        recs.append({"cls": "pool-second-call:" + name, "ok": bool(np.array_equal(s2, p2) and np.array_equal(l2s2, l2p2)), "curve": name})
        recs.append({"cls": "nonneg:" + name, "ok": bool(np.all(ser >= 0) and np.all(np.asarray(l2s) >= 0)), "curve": name})
        # diagnostic: every recorded space call is a contiguous interval a < b or a pw pair joined at one point
        bad_calls = [c for c in srx.calls if (c[0] in ("h12", "h14") and not c[1] < c[2])]
        if bad_calls:
            ctx.spec_drift("%s: seminorm routine called with a reversed interval %r (the model's patch is the union through the seam)" % (name, bad_calls[0]))
        stats.append({"curve": name, "elements": len(elems), "seminorm_calls": len(srx.calls), "reversed_interval_calls": len(bad_calls)})
        if len(samples) < 2:
            samples.append({k_: v for k_, v in recs[-6].items()})
        ctx.log("curve %s" % stats[-1])
    # polynomial residual on one straight piece: exactness (1e-8) for patches inside one side of the square
    lay = ParamLayout("UnitSquare", 1, 12, 1.0)
    mesh = lay.new_mesh()
    with contextlib.redirect_stdout(io.StringIO()):
        for e in list(mesh.leaf_elements):
            mesh.refine_space(e)
        for e in list(mesh.leaf_elements):
            mesh.refine_space(e)
        for N in ((5, 9) if quick else (3, 5, 9, 13, 19)):
            est = ErrorEstimator(mesh, N_poly=N)
            deg = (N - 1) // 2
            qc = [F(rng.randint(-3, 3)) for _ in range(deg + 1)]
            qc[-1] = F(1)
            pc = [1.0, 0.5] if N >= 3 else [1.0]
            for e in mesh.leaf_elements:
                k = ml.leaf_tuple(e, lay)
                U = lay.U
                if (k[2] // U) != ((k[3] - 1) // U) or k[2] % U == 0 or k[3] % U == 0:
                    continue     # keep elements whose space patches stay inside one side
                side0 = (k[2] // U) * 1.0
                res_poly = (lambda qc, pc, side0: lambda t, x_hat, gamma: sum(c * np.asarray(t, float) ** j for j, c in enumerate(pc)) *
                            sum(float(c) * (np.asarray(x_hat, float) - side0) ** j for j, c in enumerate(qc)))(qc, pc, side0)
                v = est.sobolev_space(e, res_poly)[0]
                # reference: sum over {e, left nbr, right nbr} of int p^2 * exact H^{1/2} of q on the union
                x0, x1 = map(float, e.space_interval)
                hx = x1 - x0
                ref = 0.0
                for (a, b) in ((x0, x1), (x0 - hx, x1), (x0, x1 + hx)):
                    ref += poly_int_sq(pc, 0.0, 1.0) * float(sr.h12_unit(poly_affine([float(c) for c in qc], a - side0, b - a)))
                recs.append({"cls": "poly-exact:space:N%d" % N, "dev": jd.dev(v, ref, 1e-8 * abs(ref)), "value": repr(v), "ref": repr(ref), "elem": list(k), "curve": "UnitSquare"})
    # different orders for the four quadratures (as the driver passes them, e.g. 5355): each routine must use *its* order.
    # residual t^2 * q(x_hat): the time indicator is exact iff the H^{1/4} order is >= 5, the space one iff the H^{1/2} order
    # covers deg q; with the orders crossed one of them loses exactness.
    with contextlib.redirect_stdout(io.StringIO()):
        for orders, pc, qc in (((9, 9, 9, 3), [0.5, 0.0, 1.0], [F(1), F(2)]), ((9, 9, 3, 9), [1.0, 1.0], [F(1), F(-1), F(0), F(1)])):
            est = ErrorEstimator(mesh, N_poly=orders)
            elems_ = list(mesh.leaf_elements)
            keys_ = [ml.leaf_tuple(e, lay) for e in elems_]
            S_ = set(keys_)
            for e, k in zip(elems_, keys_):
                U = lay.U
                if (k[2] // U) != ((k[3] - 1) // U) or k[2] % U == 0 or k[3] % U == 0:
                    continue
                side0 = (k[2] // U) * 1.0
                res_poly = (lambda qc, pc, side0: lambda t, x_hat, gamma: sum(c * np.asarray(t, float) ** j for j, c in enumerate(pc)) *
                            sum(float(c) * (np.asarray(x_hat, float) - side0) ** j for j, c in enumerate(qc)))(qc, pc, side0)
                x0, x1 = map(float, e.space_interval)
                hx = x1 - x0
                vs = est.sobolev_space(e, res_poly)[0]
                refs = sum(poly_int_sq(pc, 0.0, 1.0) * float(sr.h12_unit(poly_affine([float(c) for c in qc], a - side0, b - a)))
                           for (a, b) in ((x0, x1), (x0 - hx, x1), (x0, x1 + hx)))
                recs.append({"cls": "poly-exact:space:orders%s" % "".join(map(str, orders)), "dev": jd.dev(vs, refs, 1e-8 * abs(refs)), "elem": list(k), "curve": "UnitSquare"})
                # time indicator: e alone (single slab mesh: no time neighbours): int q^2 dx * |p|^2_{H^{1/4}(0,1)}
                vt = est.sobolev_time(e, res_poly)[0]
                sq = {}
                for i, u in enumerate(qc):
                    for j, v in enumerate(qc):
                        sq[i + j] = sq.get(i + j, F(0)) + u * v
                A_, B_ = F(x0 - side0), F(x1 - side0)
                intq2 = float(sum(v * (B_ ** (m + 1) - A_ ** (m + 1)) / (m + 1) for m, v in sq.items()))
                reft = intq2 * sr.h14(poly_affine(pc, 0.0, 1.0), 1.0)
                recs.append({"cls": "poly-exact:time:orders%s" % "".join(map(str, orders)), "dev": jd.dev(vt, reft, 1e-8 * abs(reft)), "elem": list(k), "curve": "UnitSquare"})
    # rotation of curve and residual by a quarter turn permutes the indicators (UnitSquare, Circle)
    for name, shift_roots in (("UnitSquare", 1), ("Circle", None)):
        lay = ParamLayout(name, 1, 12, 1.0)
        rc = hr.RefCurve(name)
        m1, m2 = lay.new_mesh(), lay.new_mesh()
        Lr = rc.L
        sh = Lr / 4
        with contextlib.redirect_stdout(io.StringIO()):
            for _ in range(5):
                e = rng.choice(list(m1.leaf_elements))
                ax = 1 if e.h_x ** 2 / e.h_t > 8 else rng.randrange(2)
                t0, x0 = e.time_interval[0], e.space_interval[0]
                m1.refine_axis(e, ax)
                tgt = [f for f in m2.leaf_elements if abs(f.time_interval[0] - t0) < 1e-12 and abs(f.time_interval[1] - e.time_interval[1]) < 1e-12
                       and abs((f.space_interval[0] - sh) % Lr - x0) < 1e-9 and abs(f.h_x - e.h_x) < 1e-12]
                m2.refine_axis(tgt[0], ax)
            e1, e2 = ErrorEstimator(m1, N_poly=9), ErrorEstimator(m2, N_poly=9)
        c, s_ = (0.0, 1.0)      # quarter turn about the centre of the square / the origin for the circle
        ctr = np.array([[0.5], [0.5]]) if name == "UnitSquare" else np.array([[0.0], [0.0]])
        g1 = lambda P: np.sin(2 * P[0]) + P[1] ** 2
        rot_inv = lambda P: np.vstack([(P[1] - ctr[1]) + ctr[0], -(P[0] - ctr[0]) + ctr[1]])   # inverse quarter turn
        r1 = lambda t, xh, gm: (1 + np.asarray(t, float)) * g1(gm(np.asarray(xh, float)))
        r2 = lambda t, xh, gm: (1 + np.asarray(t, float)) * g1(rot_inv(gm(np.asarray(xh, float))))
        L1, L2 = list(m1.leaf_elements), list(m2.leaf_elements)
        with contextlib.redirect_stdout(io.StringIO()):
            s1 = e1.estimate_sobolev(L1, r1)
            s2 = e2.estimate_sobolev(L2, r2)
        worst = 0
        for i, a in enumerate(L1):
            j = next(jj for jj, b in enumerate(L2) if abs(b.time_interval[0] - a.time_interval[0]) < 1e-12 and abs(b.h_t - a.h_t) < 1e-12
                     and abs((b.space_interval[0] - sh) % Lr - a.space_interval[0]) < 1e-9 and abs(b.h_x - a.h_x) < 1e-12)
            for col in (0, 1):
                worst = max(worst, jd.dev(s2[j, col], s1[i, col], 1e-9 * abs(s1[i, col])))
        recs.append({"cls": "rotation:" + name, "dev": worst, "curve": name})
    required = {r["cls"] for r in recs} | {"space:Circle:seam", "space:UnitSquare:seam", "time:Circle:seam"}
    bad, missing, jres = jd.judge(recs, required)
    if jres.machinery_error:
        ctx.machinery_error("judge: " + jres.machinery_error)
    else:
        for i, clause in bad:
            r = recs[i]
            kind = r["cls"]
            key = "%s:%s" % (clause, kind)
            if kind.startswith("space:Circle:seam") or kind == "rotation:Circle":
                key = "%s:one-piece-closed-curve-seam-pair" % clause
            ctx.violation(key, "%s for %s: %r" % (clause, kind, r), r)
        if missing:
            ctx.machinery_error("classes never exercised: %r" % (missing,))
    b2, _, _ = jd.judge([{"cls": "x", "dev": 2_000_000}], {"x"})
    st_self = {"corrupted_dev_rejected": bool(b2)}
    ctx.cov = {"evaluations": len(recs), "distinct_nontrivial": len({r["cls"] for r in recs}),
               "rule": "per element of randomly refined two-slab meshes of the four closed curves: space/time/weighted-L2 indicator vs geometric definition (order 17, 1e-4), shortcut vs direct, "
                       "serial vs pool bitwise; polynomial residuals on one side of the square (1e-8); rotation invariance; distinct_nontrivial = classes (clause x curve x seam/interior)",
               "samples": samples, "models": models, "per_curve": stats, "judge_tlc": jres.stats(), "binding_selftest": st_self}
    ctx.assumptions = ["residuals are separable r = p(t) g(gamma(x)): time factor exact (rational), space factor by Gauss-Legendre / graded reference with Euclidean distances",
                       "the neighbour-symmetry shortcut is compared to 1e-13 relative (same terms, different order of summation)"]
    return ctx.finish()
