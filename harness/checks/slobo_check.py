"""C14: Slobodeckij seminorm quadratures are exact on polynomials and invariant.

Rules.tla determines which orders exist (the Gauss keys they request are tabulated and return);
for every order and every admissible degree random rational polynomials on random intervals
(1e-3 <= b-a <= 1e3) are compared with exact rational closed forms; laws: non-negativity, zero on
constants, quadratic scaling, translation invariance, curve-aware == flat on rigidly placed
segments, and the corner configuration against an independent graded reference.  Judged by TLC
(TraceSlobo) with the coverage set computed from the registry.
"""
import json
import math
import os
import random
import re
import shutil
import tempfile
from fractions import Fraction as F

import numpy as np

from .. import rules_lib as rl
from .. import tlc
from ..common import Ctx, setup_path
from ..judge import dev
from ..oracles import slobo_ref as sr
from ..oracles.heat_ref import Rules

CFG_T = "SPECIFICATION TSpec\nINVARIANT Report\nPOSTCONDITION Done\nCHECK_DEADLOCK FALSE\n"
TOL = 1e-12


def rand_poly(rng, deg):
    c = [F(rng.randint(-5, 5), rng.randint(1, 3)) for _ in range(deg + 1)]
    if c[-1] == 0:
        c[-1] = F(1)
    return c


def run(prop, tier, seed):
    setup_path()
    ctx = Ctx("C14", tier, seed)
    rng = random.Random(seed + 14)
    quick = tier == "quick"
    from src.norms import Slobodeckij
    rules, exports = rl.extract()
    data = rl.rules_data_tla(rules, exports)
    reps = 2 if quick else 80
    recs = []
    worst = {}

    def add(routine, n, cls, deg, value, ref, tol, extra=None):
        d = dev(value, ref, tol)
        recs.append(dict({"routine": routine, "n": n, "cls": cls, "deg": deg, "dev": d, "value": repr(float(value)), "ref": repr(float(ref))}, **(extra or {})))
        worst[(routine, cls)] = max(worst.get((routine, cls), 0), d)

    def interval():
        h = 10 ** rng.uniform(-3, 3)
        a = rng.choice([0.0, -h / 3, rng.uniform(-10, 10) * h, rng.uniform(-1, 1)])
        return a, h
    for N in range(1, 24, 2):
        try:
            s14 = Slobodeckij(N, min(N, 21))
        except Exception as ex:
            recs.append({"routine": "h14", "n": N, "cls": "constructor", "deg": 0, "dev": 10 ** 9, "exc": repr(ex)[:100]})
            ctx.violation("constructor:Slobodeckij:%d" % N, "Slobodeckij(%d, %d) raises %r" % (N, min(N, 21), ex), {"order": N})
            continue
        for routine, call, exact, orders in (("h14", s14.seminorm_h_1_4, sr.h14, range(1, 24, 2)), ("h12", s14.seminorm_h_1_2, sr.h12, range(1, 22, 2))):
            if N not in orders:
                continue
            if routine == "h12" and N > 21:
                continue
            maxdeg = (N - 1) // 2
            for deg in range(1, maxdeg + 1):
                for _ in range(reps):
                    a, h = interval()
                    c = rand_poly(rng, deg)
                    f = (lambda c, a, h: lambda x: sum(float(ck) * ((x - a) / h) ** k for k, ck in enumerate(c)))(c, a, h)
                    e = exact(c, h)
                    v = call(f, a, a + h)
                    add(routine, N, "exact", deg, v, e, TOL * abs(e), {"interval": [a, a + h], "coeffs": [str(x) for x in c]})
            # laws (degree of the test function within or beyond the exactness range alike)
            a, h = interval()
            c = rand_poly(rng, max(1, min(3, maxdeg if maxdeg else 1)))
            f = (lambda c, a, h: lambda x: sum(float(ck) * ((x - a) / h) ** k for k, ck in enumerate(c)) + np.sin(3 * (x - a) / h))(c, a, h)
            v = call(f, a, a + h)
            recs.append({"routine": routine, "n": N, "cls": "nonneg", "deg": 0, "dev": 0 if v >= 0 else 10 ** 9})
            vc = call(lambda x: 2.5 + 0 * x, a, a + h)
            add(routine, N, "const-zero", 0, vc, 0.0, 1e-13 * 2.5 ** 2 * max(1.0, math.sqrt(h)))
            lam = rng.choice([-3.0, 0.5, 7.25])
            v2 = call(lambda x: lam * f(x), a, a + h)
            add(routine, N, "scaling", 0, v2, lam * lam * v, TOL * 10 * abs(lam * lam * v) if v else 1e-300)
            sft = rng.uniform(-2, 2) * h
            v3 = call(lambda x: f(x - sft), a + sft, a + h + sft)
            add(routine, N, "translation", 0, v3, v, TOL * 100 * abs(v))
        # curve-aware variant on a rigidly placed straight segment equals the flat one
        if N <= 21:
            a, h = interval()
            c = rand_poly(rng, max(1, (N - 1) // 2))
            th = rng.uniform(0, 2 * math.pi)
            p0 = np.array([rng.uniform(-2, 2), rng.uniform(-2, 2)])
            d0 = np.array([math.cos(th), math.sin(th)])
            gam = (lambda p0, d0, a: lambda x: p0[:, None] + d0[:, None] * (np.atleast_1d(x) - a)[None, :])(p0, d0, a)
            P = (lambda c, a, h: lambda x: sum(float(ck) * ((x - a) / h) ** k for k, ck in enumerate(c)))(c, a, h)
            vflat = s14.seminorm_h_1_2(P, a, a + h)
            vcurve = s14.seminorm_h_1_2(lambda xh, g: P(xh), a, a + h, gam)
            add("h12-curve", N, "curve-equals-flat", 0, vcurve, vflat, 1e-11 * abs(vflat) if vflat else 1e-300)
    # objects with *different* orders for the two seminorms, constructed one after another in one process (the driver does
    # this with its 5355 setting): each must be exact to its own orders whatever was constructed before
    for n14, n12 in ((5, 21), (5, 5), (21, 5), (5, 21), (9, 3), (3, 9)):
        sx = Slobodeckij(n14, n12)
        for routine, call, exact, n in (("h14", sx.seminorm_h_1_4, sr.h14, n14), ("h12", sx.seminorm_h_1_2, sr.h12, n12)):
            deg = (n - 1) // 2
            if deg < 1:
                continue
            a, h = interval()
            c = rand_poly(rng, deg)
            f = (lambda c, a, h: lambda x: sum(float(ck) * ((x - a) / h) ** k for k, ck in enumerate(c)))(c, a, h)
            e = exact(c, h)
            add(routine, n, "exact-after-other-orders", deg, call(f, a, a + h), e, TOL * abs(e), {"constructed_as": [n14, n12]})
    # several objects alive at once: all constructed first (descending and mixed orders), used afterwards -- an object must
    # not be affected by objects constructed after it
    for orders in ((23, 21, 15, 9, 5, 3), (5, 13, 21, 7)):
        objs = [(n, Slobodeckij(n, min(n, 21))) for n in orders]
        for n, sx in objs + objs[::-1]:
            for routine, call, exact, nn in (("h14", sx.seminorm_h_1_4, sr.h14, n), ("h12", sx.seminorm_h_1_2, sr.h12, min(n, 21))):
                deg = (nn - 1) // 2
                if deg < 1:
                    continue
                a, h = interval()
                c = rand_poly(rng, deg)
                f = (lambda c, a, h: lambda x: sum(float(ck) * ((x - a) / h) ** k for k, ck in enumerate(c)))(c, a, h)
                e = exact(c, h)
                add(routine, nn, "exact-with-other-objects-alive", deg, call(f, a, a + h), e, TOL * abs(e), {"constructed_together": list(orders)})
    # short intervals far from the origin (tolerance 1e-6: the test function itself is only evaluated to ~1e-10 there)
    for N in (5, 13):
        sx = Slobodeckij(N)
        for a, h in ((1000.0, 0.004), (1000.0, 0.3), (-250.0, 0.01)):
            h = (a + h) - a
            c = rand_poly(rng, (N - 1) // 2)
            f = (lambda c, a, h: lambda x: sum(float(ck) * ((x - a) / h) ** k for k, ck in enumerate(c)))(c, a, h)
            add("h12", N, "far-interval", 0, sx.seminorm_h_1_2(f, a, a + h), sr.h12(c, h), 1e-6 * abs(sr.h12(c, h)), {"interval": [a, a + h]})
            add("h14", N, "far-interval", 0, sx.seminorm_h_1_4(f, a, a + h), sr.h14(c, h), 1e-6 * abs(sr.h14(c, h)), {"interval": [a, a + h]})
    # one object, consecutive calls on *nearby* intervals (a slab, its union with a neighbour, the neighbour: the call
    # pattern of the estimator), near and far from the origin, thin and wide
    for N in (5, 13):
        sx = Slobodeckij(N)
        for a0 in (0.0, 3.0, 200.0, 1000.0, -250.0):
            for h0 in (1e-3, 4e-3, 0.05, 1.0):
                for a, h in ((a0, h0), (a0, 2 * h0), (a0 - h0, 2 * h0), (a0 + h0, h0), (a0, h0)):
                    h = (a + h) - a
                    c = rand_poly(rng, (N - 1) // 2)
                    f = (lambda c, a, h: lambda x: sum(float(ck) * ((x - a) / h) ** k for k, ck in enumerate(c)))(c, a, h)
                    add("h14", N, "nearby-consecutive", 0, sx.seminorm_h_1_4(f, a, a + h), sr.h14(c, h), 1e-6 * abs(sr.h14(c, h)), {"interval": [a, a + h]})
                    add("h12", N, "nearby-consecutive", 0, sx.seminorm_h_1_2(f, a, a + h), sr.h12(c, h), 1e-6 * abs(sr.h12(c, h)), {"interval": [a, a + h]})
    # corner configuration: polynomial data in the embedded coordinates, order 21
    R = Rules(n=20, q=0.3, levels=30)
    for rep in range(2 if quick else 40):
        # the configurations meshes produce: right angles, neighbouring elements within a factor two
        l0 = 10 ** rng.uniform(-1, 1)
        l1 = l0 * rng.choice([1.0, 0.5, 2.0])
        ang = rng.choice([math.pi / 2, -math.pi / 2])
        p0 = np.array([rng.uniform(-1, 1), rng.uniform(-1, 1)])
        d0 = np.array([1.0, 0.0])
        p1 = p0 + d0 * l0
        d1 = np.array([math.cos(ang), math.sin(ang)])
        co = [rng.randint(-3, 3) for _ in range(4)]
        g = (lambda co: lambda Pt: co[0] * Pt[0] + co[1] * Pt[1] + co[2] * Pt[0] * Pt[1] + co[3] * 0.5 + 1.0 * Pt[1] ** 2)(co)
        # cross term in distances u, v from the corner (no cancellation): X = corner - d0*u, Y = corner + d1*v
        u, wu = l0 * R.s0, l0 * R.w0
        v_, wv = l1 * R.s0, l1 * R.w0
        X = p1[:, None] - d0[:, None] * u[None, :]
        Y = p1[:, None] + d1[:, None] * v_[None, :]
        Dx = -d0[0] * u[:, None] - d1[0] * v_[None, :]
        Dy = -d0[1] * u[:, None] - d1[1] * v_[None, :]
        cross = float(wu @ (((g(X)[:, None] - g(Y)[None, :]) ** 2 / (Dx ** 2 + Dy ** 2)) @ wv))

        def flat_ref(p, d, ln):
            # exact: g along the piece is a quadratic in the arc length; fit its coefficients exactly from three points
            ts = np.array([0.0, 0.5, 1.0])
            vals = g(p[:, None] + d[:, None] * (ts * ln)[None, :])
            c2 = 2 * (vals[2] - 2 * vals[1] + vals[0])
            c1 = vals[2] - vals[0] - c2
            return sr.h12([F(float(vals[0])), F(float(c1)), F(float(c2))], ln)
        ref = flat_ref(p0, d0, l0) + flat_ref(p1, d1, l1) + 2 * cross
        gam1 = (lambda p0, d0: lambda xx: p0[:, None] + d0[:, None] * np.atleast_1d(xx)[None, :])(p0, d0)
        gam2 = (lambda p1, d1, l0: lambda xx: p1[:, None] + d1[:, None] * (np.atleast_1d(xx) - l0)[None, :])(p1, d1, l0)
        s = Slobodeckij(21)
        try:
            v = s.seminorm_h_1_2_pw(lambda xh, gm: g(gm(xh)), 0.0, l0, gam1, l0, l0 + l1, gam2)
            add("h12-pw", 21, "corner", 0, v, ref, 1e-9 * abs(ref), {"angle": ang, "lengths": [l0, l1]})
            v13 = Slobodeckij(13).seminorm_h_1_2_pw(lambda xh, gm: g(gm(xh)), 0.0, l0, gam1, l0, l0 + l1, gam2)
            recs.append({"routine": "h12-pw", "n": 21, "cls": "corner-converges", "deg": 0,
                         "dev": 0 if abs(v - ref) <= max(abs(v13 - ref), 1e-13 * abs(ref)) else 10 ** 9})
        except AssertionError:
            # the routine insists on gamma_1(b_1) == gamma_2(a_2) bit for bit; such placements are not admissible inputs
            continue
    # judge
    work = tempfile.mkdtemp(prefix="slobo.", dir=tlc._scratch())
    path = os.path.join(work, "trace.json")
    json.dump(recs, open(path, "w"))
    jres = tlc.run_tlc("TraceSlobo", CFG_T, workers=1, timeout=1800, env={"TRACE_FILE": path}, aux_files={"RulesData.tla": data})
    shutil.rmtree(work, ignore_errors=True)
    mm = re.search(r'<<\s*"BAD",\s*(\{.*?\}),\s*"MISSING",\s*(\{.*\})\s*>>', jres.output, flags=re.S)
    if not mm:
        ctx.machinery_error("TraceSlobo: " + (jres.machinery_error or jres.output[-300:]))
    else:
        for tpl in sorted(tlc.parse_value(mm.group(1))):
            l, clause = tpl[0], tpl[1]
            r = recs[l - 1]
            if clause.startswith("d:"):
                ctx.spec_drift("%s %r" % (clause, r))
                continue
            ctx.violation("%s:%s:%d" % (clause, r["routine"], r["n"]), "%s fails for %s order %d: %r" % (clause, r["routine"], r["n"], r), r)
        missing = tlc.parse_value(mm.group(2))
        if missing:
            ctx.machinery_error("cases never exercised: %r" % (sorted(map(str, missing))[:5],))
    st_self = {}
    r2 = [dict(r) for r in recs[:10]]
    r2[2]["dev"] = 4_000_000
    p2 = os.path.join(tlc._scratch(), "sl2.json")
    json.dump(r2, open(p2, "w"))
    j2 = tlc.run_tlc("TraceSlobo", CFG_T, workers=1, timeout=600, env={"TRACE_FILE": p2}, aux_files={"RulesData.tla": data})
    os.remove(p2)
    st_self["corrupted_dev_rejected"] = bool(re.search(r'"BAD",\s*\{\s*<<', j2.output))
    st_self["missing_cases_reported"] = not re.search(r'"MISSING",\s*\{\s*\}', j2.output)
    if not all(st_self.values()):
        ctx.machinery_error("binding self-test failed: %r" % st_self)
    ctx.cov = {"evaluations": len(recs), "distinct_nontrivial": len({(r["routine"], r["n"], r["cls"], r["deg"]) for r in recs}),
               "rule": "every order 1..23 (H^{1/4}) / 1..21 (H^{1/2}) x every degree <= (N-1)/2 x %d random rational polynomials on random intervals (1e-3..1e3); laws per order; "
                       "curve-aware vs flat per order; corner configuration at order 21 with random angles and lengths" % reps,
               "samples": [recs[0], recs[len(recs) // 2]], "worst_dev_millionths": {"%s/%s" % k: v for k, v in worst.items()},
               "judge_tlc": jres.stats(), "binding_selftest": st_self}
    ctx.assumptions = ["polynomials are given in the interval's own affine coordinate and the interval offset is at most 10 interval lengths (conditioning of p(x)-p(y), DESIGN C14)",
                       "corner reference: exact same-piece parts + graded Gauss-Legendre cross term (accuracy ~1e-14); the corner quadrature converges spectrally, "
                       "so the clause is read at order 21 with tolerance 1e-9 for right angles and length ratios within 2 (measured 5e-11; 2e-5 at ratio 10 / obtuse angles, which meshes do not produce)"]
    return ctx.finish()
