"""C13: the symmetric part of the single-layer matrix is positive definite.

STMesh.tla supplies *every* mesh reachable within a primitive-bisection budget from the initial
mesh of each closed curve (TLC dump); each abstract state is rebuilt as a real MeshParametrized
by real bisections, assembled with bilform_matrix, and the smallest eigenvalue of the diagonally
scaled symmetric part is quantised and judged by TLC (Judge.tla: 10^6 * lambda_min > 10^4).  The
4x4 child blocks of the hierarchical estimator are judged the same way; larger random meshes
(thorough) extend beyond the budget.
"""
import contextlib
import io
import math
import multiprocessing as mp
import os
import random
import shutil

import numpy as np

from .. import judge as jd
from .. import meshlib as ml
from .. import tlc
from ..common import Ctx, setup_path

CFG = """CONSTANTS Nt = %(Nt)d Nx = %(Nx)d Glue = TRUE MaxL = %(MaxL)d Budget = %(Budget)d
  Ops = {"bisect"} SortSpace = TRUE GradeSkip = TRUE P = 4 CTn = 4 CSn = 4
SPECIFICATION Spec
VIEW View
CHECK_DEADLOCK FALSE
INVARIANT Tiles
INVARIANT OneIrregular
INVARIANT NoErr
"""


class ParamLayout(ml.Layout):
    def __init__(self, curve_name, nt, maxl, tunit=1.0):
        from src import parametrization as pz
        self.curve_name = curve_name
        g = getattr(pz, curve_name)()
        super().__init__([j * tunit for j in range(nt + 1)], list(g.pw_start), True, maxl)

    def new_mesh(self):
        from src import parametrization as pz
        from src.mesh import MeshParametrized
        with contextlib.redirect_stdout(io.StringIO()):
            return MeshParametrized(getattr(pz, self.curve_name)(), initial_time_mesh=list(self.tgrid))


def reach(lay, target):
    """real mesh whose projected leaf set is `target` (a reachable abstract state refining the
    initial real mesh): bisect any leaf that is not a target leaf along an axis no target leaf
    inside it crosses; minimality of the closure guarantees we never overshoot."""
    mesh = lay.new_mesh()
    target = set(target)
    for _ in range(10000):
        cur = ml.leaf_map(mesh, lay)
        todo = [k for k in cur if k not in target]
        if not todo:
            if set(cur) != target:
                raise RuntimeError("overshoot")
            return mesh
        k = todo[0]
        inside = [t for t in target if k[0] <= t[0] and t[1] <= k[1] and k[2] <= t[2] and t[3] <= k[3]]
        if not inside:
            raise RuntimeError("target does not refine the current mesh at %r" % (k,))
        tm, xm = (k[0] + k[1]) // 2, (k[2] + k[3]) // 2
        if all(t[1] <= tm or t[0] >= tm for t in inside) and any(t[1] - t[0] < k[1] - k[0] for t in inside):
            mesh.refine_time(cur[k])
        elif all(t[3] <= xm or t[2] >= xm for t in inside):
            mesh.refine_space(cur[k])
        else:
            raise RuntimeError("no admissible axis for %r" % (k,))
    raise RuntimeError("did not terminate")


def lam_min(SL, test, trial=None):
    with contextlib.redirect_stdout(io.StringIO()):
        A = SL.bilform_matrix(test, test)
    d = np.diag(A)
    if np.any(d <= 0) or not np.all(np.isfinite(A)):
        return -1.0
    S = 0.5 * (A + A.T) / np.sqrt(np.outer(d, d))
    try:
        lam = float(np.linalg.eigvalsh(S)[0])
    except np.linalg.LinAlgError:
        return -1.0
    return lam if np.isfinite(lam) else -1.0


def _job(args):
    name, nt, maxl, tunit, target = args
    from src.hierarchical_error_estimator import DummyElement
    from src.single_layer import SingleLayerOperator
    lay = ParamLayout(name, nt, maxl, tunit)
    try:
        mesh = reach(lay, target)
    except RuntimeError as ex:
        return {"err": str(ex)}
    elems = list(mesh.leaf_elements)
    asp = max(e.h_x ** 2 / e.h_t for e in elems)
    if asp > 32:
        return {"skip": "aspect"}
    with contextlib.redirect_stdout(io.StringIO()):
        SL = SingleLayerOperator(mesh)
    out = {"n": len(elems), "lam": lam_min(SL, elems), "aspect": asp}
    # 4x4 child blocks of the hierarchical estimator (children of aspect <= 32 as well)
    blocks = []
    for e in elems[:6]:
        ch = DummyElement.uniform_refinement([e])[0]
        SL._init_elems(ch)
        blocks.append(lam_min(SL, ch))
    out["blocks"] = blocks
    return out


RECIPES = ["space-corner-then-time-end", "time-end-then-space-corner", "time-start-graded", "time-band", "space-point-both-slabs", "column-time-graded"]


def _find(mesh, t, x):
    for e in mesh.leaf_elements:
        if e.time_interval[0] <= t < e.time_interval[1] and e.space_interval[0] <= x % float(mesh.gamma_space.pw_start[-1]) < e.space_interval[1]:
            return e
    raise RuntimeError("no leaf at %r" % ((t, x),))


def _graded_job(args):
    """Strongly graded meshes (local refinement in time next to elements spanning a long time interval, local
    refinement in space in one slab only, a refined time band): the configurations in which the time-integrated
    kernel sees nested, start- or end-aligned and strictly interior time intervals of very different length."""
    name, tunit, recipe, depth = args
    from src.single_layer import SingleLayerOperator
    lay = ParamLayout(name, 1, 12, tunit)
    mesh = lay.new_mesh()
    T = tunit
    L = float(lay.xgrid[-1])
    xc = float(lay.xgrid[1]) if len(lay.xgrid) > 2 else 0.0        # a vertex of the curve (a parameter value on the circle)
    eps_t, eps_x = T * 2.0 ** -20, L * 2.0 ** -20

    def ok(e, ax):
        hx, ht = (e.h_x / 2, e.h_t) if ax == 1 else (e.h_x, e.h_t / 2)
        return hx ** 2 / ht <= 32

    def ref(t, x, ax):
        e = _find(mesh, t, x)
        if not ok(e, ax):
            # refine in space first to stay within the aspect range
            with contextlib.redirect_stdout(io.StringIO()):
                mesh.refine_axis(e, 1)
            e = _find(mesh, t, x)
        with contextlib.redirect_stdout(io.StringIO()):
            mesh.refine_axis(e, ax)
    if recipe == "space-corner-then-time-end":
        for _ in range(depth + 1):
            ref(T - eps_t, xc + eps_x, 1)
        for _ in range(depth):
            ref(T - eps_t, xc + eps_x, 0)
    elif recipe == "time-end-then-space-corner":
        for _ in range(depth):
            ref(T - eps_t, xc - eps_x, 0)
        for _ in range(depth + 1):
            ref(T - eps_t, xc - eps_x, 1)
    elif recipe == "time-start-graded":
        for _ in range(depth + 1):
            ref(eps_t, xc + eps_x, 1)
        for _ in range(depth + 1):
            ref(eps_t, xc + eps_x, 0)
    elif recipe == "time-band":
        with contextlib.redirect_stdout(io.StringIO()):
            mesh.uniform_refine()
            for _ in range(2):
                for e in list(mesh.leaf_elements):
                    if e.h_x ** 2 / (e.h_t / 2) <= 32:
                        mesh.refine_time(e) if not e.children else None
            for e in list(mesh.leaf_elements):
                if not e.children and 0.25 * T <= e.time_interval[0] and e.time_interval[1] <= 0.5 * T and e.h_x ** 2 / (e.h_t / 2) <= 32:
                    mesh.refine_time(e)
    elif recipe == "space-point-both-slabs":
        ref(0.5 * T, xc + eps_x, 1)
        ref(0.25 * T, xc + eps_x, 0)
        for _ in range(depth):
            ref(eps_t, xc + eps_x, 1)
        for _ in range(depth - 1):
            ref(T - eps_t, 0.5 * L + eps_x, 0)
    elif recipe == "column-time-graded":
        for _ in range(2):
            ref(0.5 * T, xc + eps_x, 1)
        for k in range(depth + 1):
            ref(0.5 * T + eps_t, xc + eps_x, 0)
    elems = list(mesh.leaf_elements)
    asp = max(e.h_x ** 2 / e.h_t for e in elems)
    if asp > 32 or len(elems) > 300:
        return {"skip": "aspect %g n %d" % (asp, len(elems))}
    with contextlib.redirect_stdout(io.StringIO()):
        SL = SingleLayerOperator(mesh)
    ratio = max(e.h_t for e in elems) / min(e.h_t for e in elems)
    return {"n": len(elems), "lam": lam_min(SL, elems), "aspect": asp, "time_ratio": ratio}


def run(prop, tier, seed):
    setup_path()
    ctx = Ctx("C13", tier, seed)
    rng = random.Random(seed + 13)
    quick = tier == "quick"
    # curve, Nt, budget, MaxL, time unit
    plan = [("UnitSquare", 1, 4, 6, 1.0), ("UnitSquare", 2, 2, 4, 1.0), ("PiSquare", 1, 3, 5, 4.0), ("LShape", 1, 2, 4, 1.0), ("Circle", 1, 6, 7, 1.0)]
    if not quick:
        plan = [("UnitSquare", 1, 5, 7, 1.0), ("UnitSquare", 2, 3, 5, 1.0), ("PiSquare", 1, 4, 6, 4.0), ("LShape", 1, 3, 5, 1.0), ("Circle", 1, 7, 8, 1.0), ("Circle", 2, 9, 9, 1.0)]
    cap = 250 if quick else 4000
    recs, stats = [], []
    for name, nt, budget, maxl, tunit in plan:
        lay = ParamLayout(name, nt, maxl, tunit)
        dump = os.path.join(tlc._scratch(), "st")
        cfg = CFG % {"Nt": nt, "Nx": lay.Nx, "MaxL": maxl, "Budget": budget}
        res = tlc.run_tlc("STMesh", cfg, timeout=3000, dump=dump)
        st = {"curve": name, "Nt": nt, "budget": budget, "tlc": res.stats()}
        if res.machinery_error or not res.ok:
            ctx.machinery_error("STMesh %s: %s" % (name, res.machinery_error or res.violated))
            stats.append(st)
            continue
        init = set(ml.project(lay.new_mesh(), lay))
        states = []
        import re
        txt = open(dump + ".dump").read()
        for blk in re.split(r"^State \d+:\s*$", txt, flags=re.M):
            if "order" not in blk:
                continue
            s = tlc.parse_state(blk.strip())
            S = frozenset(ml.from_tla_leaf(r) for r in s["order"])
            # only states that refine the real initial mesh (the min-three guard pre-refines one-piece curves)
            if all(any(i[0] <= k[0] and k[1] <= i[1] and i[2] <= k[2] and k[3] <= i[3] for i in init) for k in S) and len(S) <= lay.Nt * lay.Nx + budget:
                states.append(S)
        shutil.rmtree(os.path.dirname(dump), ignore_errors=True)
        st["model_states_refining_initial_mesh"] = len(states)
        exhaustive = len(states) <= cap
        if not exhaustive:
            rng.shuffle(states)
            states = states[:cap]
        st["meshes_assembled_exhaustively"] = exhaustive
        jobs = [(name, nt, maxl, tunit, tuple(sorted(S))) for S in states]
        with mp.get_context("fork").Pool(16) as pool:
            outs = pool.map(_job, jobs, chunksize=max(1, len(jobs) // 64))
        nskip = 0
        for job, o in zip(jobs, outs):
            if "err" in o:
                ctx.machinery_error("cannot rebuild a model state on %s: %s" % (name, o["err"]))
                continue
            if "skip" in o:
                nskip += 1
                continue
            recs.append({"cls": "mesh:%s" % name, "lam6": int(math.floor(1e6 * o["lam"])), "n": o["n"], "curve": name,
                         "leaves": [list(k) for k in job[4]] if o["n"] <= 12 else o["n"]})
            for b in o["blocks"]:
                recs.append({"cls": "block:%s" % name, "lam6": int(math.floor(1e6 * b)), "curve": name, "n": 4})
        st["skipped_aspect"] = nskip
        st["min_lambda"] = min([r["lam6"] for r in recs if r["curve"] == name and r["cls"].startswith("mesh")] or [0]) / 1e6
        st["min_lambda_blocks"] = min([r["lam6"] for r in recs if r["curve"] == name and r["cls"].startswith("block")] or [0]) / 1e6
        stats.append(st)
        ctx.log("curve %s" % st)
    # strongly graded meshes (time-size ratios of 4 and more inside one mesh)
    gjobs = [(name, tunit, rc, d) for name, tunit in (("UnitSquare", 1.0), ("Circle", 1.0), ("LShape", 1.0), ("PiSquare", 4.0))
             for rc in RECIPES for d in ((3, 4) if quick else (2, 3, 4, 5))]
    with mp.get_context("fork").Pool(16) as pool:
        gouts = pool.map(_graded_job, gjobs, chunksize=1)
    graded = []
    for job, o in zip(gjobs, gouts):
        if "skip" in o:
            graded.append({"job": list(job), "skip": o["skip"]})
            continue
        recs.append({"cls": "graded-mesh:%s:%s" % (job[0], job[2]), "lam6": int(math.floor(1e6 * o["lam"])), "n": o["n"], "curve": job[0],
                     "graded_job": list(job)})
        graded.append({"job": list(job), "n": o["n"], "lambda_min": o["lam"], "time_ratio": o["time_ratio"], "aspect": o["aspect"]})
    ctx.log("graded %s" % [(g["job"][0], g["job"][2], g.get("n"), round(g.get("lambda_min", 0), 3), g.get("time_ratio"), g.get("skip")) for g in graded])
    # larger random meshes beyond the budget
    big = []
    for name, tunit in (("UnitSquare", 1.0), ("Circle", 1.0), ("LShape", 1.0), ("PiSquare", 4.0)):
        from src.single_layer import SingleLayerOperator
        lay = ParamLayout(name, 2, 12, tunit)
        for rep in range(1 if quick else 4):
            mesh = lay.new_mesh()
            for _ in range(40 if quick else 160):
                e = rng.choice(list(mesh.leaf_elements))
                ax = 1 if e.h_x ** 2 / e.h_t > 8 else rng.randrange(2)
                if ax == 0 and e.h_x ** 2 / e.h_t * 2 > 32:
                    ax = 1
                with contextlib.redirect_stdout(io.StringIO()):
                    mesh.refine_axis(e, ax)
            elems = list(mesh.leaf_elements)
            if max(e.h_x ** 2 / e.h_t for e in elems) > 32:
                continue
            with contextlib.redirect_stdout(io.StringIO()):
                SL = SingleLayerOperator(mesh)
                A = SL.bilform_matrix(elems, elems, use_mp=True)
            d = np.diag(A)
            try:
                lam = float(np.linalg.eigvalsh(0.5 * (A + A.T) / np.sqrt(np.outer(d, d)))[0]) if np.all(d > 0) and np.all(np.isfinite(A)) else -1.0
            except np.linalg.LinAlgError:
                lam = -1.0
            if not np.isfinite(lam):
                lam = -1.0
            recs.append({"cls": "random-mesh:%s" % name, "lam6": int(math.floor(1e6 * lam)), "n": len(elems), "curve": name})
            big.append({"curve": name, "n": len(elems), "lambda_min": lam})
    required = {r["cls"] for r in recs}
    bad, missing, jres = jd.judge(recs, required)
    if jres.machinery_error:
        ctx.machinery_error("judge: " + jres.machinery_error)
    else:
        for i, clause in bad:
            r = recs[i]
            ctx.violation("%s:%s" % (clause, r["cls"]), "smallest eigenvalue of the scaled symmetric part is %g on %s (%s elements)" % (r["lam6"] / 1e6, r["cls"], r["n"]), r)
    # self-test
    b2, _, _ = jd.judge([{"cls": "x", "lam6": 9000}], {"x"})
    st_self = {"small_eigenvalue_rejected": bool(b2)}
    if not all(st_self.values()):
        ctx.machinery_error("binding self-test failed")
    ctx.cov = {"evaluations": len(recs), "distinct_nontrivial": len({(r["cls"], str(r.get("leaves", r["n"]))) for r in recs if r["cls"].startswith("mesh")}),
               "rule": "every STMesh state within the budget that refines the real initial mesh (per curve; capped at %d, flagged when sampled) rebuilt as a real mesh and assembled; "
                       "plus 4x4 child blocks and larger random meshes; distinct_nontrivial = distinct meshes" % cap,
               "samples": [recs[0], recs[-1]] if recs else [], "per_curve": stats, "random_meshes": big, "graded_meshes": graded, "judge_tlc": jres.stats(), "binding_selftest": st_self}
    ctx.assumptions = ["eigenvalues by numpy.linalg.eigvalsh; diagonal scaling with the computed diagonal; aspect h_x^2/h_t <= 32"]
    return ctx.finish()
