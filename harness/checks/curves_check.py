"""C18: curves are arc-length, closed, piecewise consistent; elements sit on one piece; at least
three elements per slab on a closed curve.

  1. ParamInit.tla per curve shape (piece lengths, closed): every time grid with 1..MaxSlabs slabs
     x every space grid {break points} + subset of piece mid points: PieceOK, MinThree, TouchOnce,
     TilesSlab.  Every configuration is constructed with the real MeshParametrized; the real leaves
     (slab, interval, piece carried) are judged by TLC (TraceParamInit), followed by random
     refinements (children inherit the piece).
  2. Polygon.tla: all rectilinear lattice polygons up to MaxSides on a small lattice; each closed
     walk is handed to the real PiecewisePolygon constructor and measured like a shipped curve.
  3. geometry of every curve measured against exact segment geometry and judged (Judge.tla):
     arc length per piece, piece lengths = side lengths, continuity at break points, closure,
     whole-curve evaluation == containing piece.
"""
import json
import math
import os
import random
import re
import shutil
import tempfile

import numpy as np

from .. import judge as jd
from .. import tlc
from ..common import Ctx

SC = 8
GEOM_TOL = 1e-12
GEOM_CLASSES = ["arc-length", "piece-length", "continuity", "closure", "eval-piece", "eval-piece-break", "eval-array-order"]

MC_PI = """---- MODULE MCParamInit ----
EXTENDS %s
PiecesDef == %s
====
"""
CFG_PI = """CONSTANTS Pieces <- PiecesDef Closed = %(Closed)s MaxSlabs = %(MaxSlabs)d GuardPerSlab = %(Guard)s
SPECIFICATION Spec
CHECK_DEADLOCK FALSE
INVARIANT PieceOK
INVARIANT MinThree
INVARIANT TouchOnce
INVARIANT TilesSlab
"""
CFG_TPI = """CONSTANTS Pieces <- PiecesDef Closed = %(Closed)s MaxSlabs = 6 GuardPerSlab = TRUE
SPECIFICATION TraceSpec
INVARIANT Report
POSTCONDITION TraceDone
CHECK_DEADLOCK FALSE
"""


class Curve:
    def __init__(self, name, make, pieces, closed, unit):
        self.name, self.make, self.pieces, self.closed, self.unit = name, make, pieces, closed, unit


def shipped():
    from src import parametrization as pz
    return [
        Curve("UnitSquare", pz.UnitSquare, [1, 1, 1, 1], True, 1.0),
        Curve("PiSquare", pz.PiSquare, [1, 1, 1, 1], True, math.pi),
        Curve("LShape", pz.LShape, [1, 1, 2, 2, 1, 1], True, 1.0),
        Curve("Circle", pz.Circle, [1], True, 2 * math.pi),
        Curve("UnitInterval", pz.UnitInterval, [1], False, 1.0),
    ]


# ------------------------------------------------------------------------------------
# geometry measurements
# ------------------------------------------------------------------------------------
def geometry_records(curve, gamma, rng, verts=None):
    recs = []
    tag = curve.name
    starts = list(gamma.pw_start)
    L = gamma.gamma_length
    n = len(gamma.pw_gamma)
    is_circle = curve.name == "Circle"

    def P(i, x):
        return np.asarray(gamma.pw_gamma[i](np.array([x], dtype=float)), dtype=float).reshape(2)

    def E(x):
        return np.asarray(gamma.eval(np.array([x], dtype=float)), dtype=float).reshape(2)
    for i in range(n):
        a, b = starts[i], starts[i + 1]
        ln = b - a
        # piece length = side length
        if verts is not None:
            side = float(np.linalg.norm(np.asarray(verts[i + 1], float) - np.asarray(verts[i], float)))
        elif is_circle:
            side = 2 * math.pi
        else:
            side = float(np.linalg.norm(P(i, b) - P(i, a)))  # end point distance of a straight piece
            # the straightness itself is tested by the arc-length samples below
        recs.append({"cls": "piece-length", "curve": tag, "piece": i, "dev": jd.dev(ln, side, GEOM_TOL * max(1, side))})
        # arc length: chords
        for k in range(6):
            h = ln / 2 ** rng.randrange(1, 12)
            x = a + (ln - h) * rng.random() if k else a
            chord = float(np.linalg.norm(P(i, x + h) - P(i, x)))
            ref = 2 * math.sin(h / 2) if is_circle else h
            recs.append({"cls": "arc-length", "curve": tag, "piece": i, "dev": jd.dev(chord, ref, GEOM_TOL * max(1.0, L))})
        # whole-curve evaluation == piece evaluation
        for k in range(5):
            x = a + ln * (0.5 if k == 0 else rng.random())
            d = float(np.max(np.abs(E(x) - P(i, x))))
            recs.append({"cls": "eval-piece", "curve": tag, "piece": i, "dev": jd.dev(d, 0.0, GEOM_TOL)})
    # continuity at break points, and eval there agrees with an adjacent piece
    for i in range(n + 1):
        x = starts[i]
        cands = []
        if i < n:
            cands.append(P(i, x))
        if i > 0:
            cands.append(P(i - 1, x))
        if len(cands) == 2:
            recs.append({"cls": "continuity", "curve": tag, "piece": i, "dev": jd.dev(float(np.max(np.abs(cands[0] - cands[1]))), 0.0, GEOM_TOL * max(1.0, L))})
        d = min(float(np.max(np.abs(E(x) - c))) for c in cands)
        recs.append({"cls": "eval-piece-break", "curve": tag, "piece": i, "dev": jd.dev(d, 0.0, GEOM_TOL * max(1.0, L))})
    # whole-curve evaluation of an array in arbitrary (non-monotone) order == evaluation point by point
    xs = np.array([starts[i] + (starts[i + 1] - starts[i]) * f for i in range(n) for f in (0.0, 0.25, 0.875)] + [L])
    for rep in range(3):
        perm = list(range(len(xs)))
        rng.shuffle(perm)
        arr = xs[perm]
        whole = np.asarray(gamma.eval(arr), dtype=float).reshape(2, -1)
        single = np.hstack([E(float(v)).reshape(2, 1) for v in arr])
        recs.append({"cls": "eval-array-order", "curve": tag, "dev": jd.dev(float(np.max(np.abs(whole - single))), 0.0, GEOM_TOL * max(1.0, L))})
    if n == 1:
        recs.append({"cls": "continuity", "curve": tag, "piece": 0, "dev": 0, "note": "single piece"})
    if curve.closed:
        recs.append({"cls": "closure", "curve": tag, "dev": jd.dev(float(np.max(np.abs(E(0.0) - E(L)))), 0.0, GEOM_TOL * max(1.0, L))})
    else:
        recs.append({"cls": "closure", "curve": tag, "dev": 0, "note": "open curve"})
    return recs


# ------------------------------------------------------------------------------------
# mesh construction: model states -> real MeshParametrized -> judged
# ------------------------------------------------------------------------------------
def model_configs(ctx, curve, maxslabs, guard=True, expect_violation=None):
    pieces = "<<" + ", ".join(map(str, curve.pieces)) + ">>"
    dump = os.path.join(tlc._scratch(), "pi")
    cfg = CFG_PI % {"Closed": "TRUE" if curve.closed else "FALSE", "MaxSlabs": maxslabs, "Guard": "TRUE" if guard else "FALSE"}
    res = tlc.run_tlc("MCParamInit", cfg, timeout=1200, dump=dump, aux_files={"MCParamInit.tla": MC_PI % ("ParamInit", pieces)})
    st = {"curve": curve.name, "pieces": curve.pieces, "closed": curve.closed, "guard_per_slab": guard, "tlc": res.stats()}
    if res.machinery_error:
        ctx.machinery_error("ParamInit %s: %s" % (curve.name, res.machinery_error))
        return st, []
    st["violated"] = res.violated
    cfgs = []
    if res.ok:
        for s in tlc.read_dump(dump + ".dump", only='phase = "cfg"'):
            if s["phase"] == "cfg":
                cfgs.append((s["nt"], tuple(sorted(s["xs"]))))
    shutil.rmtree(os.path.dirname(dump), ignore_errors=True)
    return st, cfgs


def piece_index(gamma, g):
    for i, f in enumerate(gamma.pw_gamma):
        if f is g:
            return i + 1
    return 0


def to_int(x, unit):
    v = x / unit * SC
    r = round(v)
    if abs(v - r) > 1e-7:
        return None
    return int(r)


def leaves_event(mesh, curve, gamma, kind, nt, xs):
    post = []
    ok = True
    for e in mesh.leaf_elements:
        slab = int(math.floor(e.time_interval[0] * (1 if nt <= 6 else nt) + 1e-9)) + 1
        x0, x1 = to_int(e.space_interval[0], curve.unit), to_int(e.space_interval[1], curve.unit)
        # level in space relative to the root is not needed by the clauses; report 0
        if x0 is None or x1 is None:
            # finer than the integer grid: scale check only through piece containment in floats
            ok = False
            continue
        post.append([slab, x0, x1, piece_index(gamma, e.gamma_space), 0])
    return {"k": kind, "nt": nt, "xs": list(xs), "post": post, "exc": "", "all_on_grid": ok}


def construct_and_refine(ctx, curve, cfgs, rng, n_refine):
    from src.mesh import MeshParametrized
    events, meta = [], []
    for nt, xs in cfgs:
        gamma = curve.make()
        grid = [x / SC * curve.unit for x in xs]
        grid[0] = 0
        grid[-1] = gamma.pw_start[-1]
        # break points must be passed exactly as the curve has them
        for i, x in enumerate(xs):
            for k, s in enumerate(gamma.pw_start):
                if abs(grid[i] - s) < 1e-9:
                    grid[i] = s
        tg = [float(j) for j in range(nt + 1)] if nt <= 6 else [j / nt for j in range(nt + 1)]     # driver: [j / N_t]
        ev = {"k": "construct", "nt": nt, "xs": list(xs), "post": [], "exc": ""}
        try:
            import io
            import contextlib
            with contextlib.redirect_stdout(io.StringIO()):
                mesh = MeshParametrized(gamma, initial_space_mesh=grid, initial_time_mesh=tg)
            ev = leaves_event(mesh, curve, gamma, "construct", nt, xs)
        except Exception as ex:
            ev["exc"] = "%s: %s" % (type(ex).__name__, str(ex)[:100])
        events.append(ev)
        meta.append({"curve": curve.name, "nt": nt, "xs": list(xs), "ops": []})
        if ev["exc"]:
            continue
        # random refinements: space bisections stay on the integer grid for two levels
        ops = []
        for r in range(n_refine):
            leaves = list(mesh.leaf_elements)
            e = rng.choice(leaves)
            ax = rng.randrange(2)
            if ax == 1 and to_int((e.space_interval[0] + e.space_interval[1]) / 2, curve.unit) is None:
                ax = 0
            ops.append((list(e.time_interval), list(e.space_interval), ax))
            mesh.refine_axis(e, ax)
        if ops:
            ev2 = leaves_event(mesh, curve, gamma, "state", nt, xs)
            events.append(ev2)
            meta.append({"curve": curve.name, "nt": nt, "xs": list(xs), "ops": ops})
    return events, meta


def judge_mesh(ctx, curve, events, meta):
    if not events:
        return {"events": 0}
    pieces = "<<" + ", ".join(map(str, curve.pieces)) + ">>"
    work = tempfile.mkdtemp(prefix="pi.", dir=tlc._scratch())
    path = os.path.join(work, "trace.json")
    with open(path, "w") as fh:
        json.dump(events, fh)
    res = tlc.run_tlc("MCTraceParamInit", CFG_TPI % {"Closed": "TRUE" if curve.closed else "FALSE"}, workers=1, timeout=1800,
                      env={"TRACE_FILE": path}, aux_files={"MCTraceParamInit.tla": MC_PI.replace("MCParamInit", "MCTraceParamInit") % ("TraceParamInit", pieces)})
    shutil.rmtree(work, ignore_errors=True)
    mm = re.search(r'<<\s*"BAD",\s*(\{.*?\})\s*>>', res.output, flags=re.S)
    if not mm:
        ctx.machinery_error("TraceParamInit %s: %s" % (curve.name, res.machinery_error or res.output[-300:]))
        return {"events": len(events)}
    for t in sorted(tlc.parse_value(mm.group(1))):
        l, clause = t[0], t[1]
        m = meta[l - 1]
        if clause.startswith("d:"):
            ctx.spec_drift("%s: %s for nt=%d xs=%r" % (curve.name, clause, m["nt"], m["xs"]))
            continue
        exc = events[l - 1].get("exc", "")
        one_piece = len(curve.pieces) == 1
        key = "%s:%s:%s" % (clause, "one-piece-closed" if (one_piece and curve.closed) else curve.name,
                            "slabs>=3" if m["nt"] >= 3 else "slabs<3")
        ctx.violation(key, "clause %s fails on %s with %d time slabs, space grid %r (units 1/8) %s" % (clause, curve.name, m["nt"], m["xs"], exc),
                      {"curve": curve.name, "nt": m["nt"], "xs_eighths": m["xs"], "ops": m["ops"], "clause": clause})
    return {"events": len(events), "tlc": res.stats()}


# ------------------------------------------------------------------------------------
# polygons
# ------------------------------------------------------------------------------------
CFG_POLY = """CONSTANTS G = %d MaxSides = %d
SPECIFICATION Spec
CHECK_DEADLOCK FALSE
INVARIANT ClosedEven
"""


def polygons(ctx, G, maxsides, cap, rng):
    dump = os.path.join(tlc._scratch(), "poly")
    res = tlc.run_tlc("Polygon", CFG_POLY % (G, maxsides), timeout=1800, dump=dump)
    st = {"G": G, "MaxSides": maxsides, "tlc": res.stats()}
    if res.machinery_error or not res.ok:
        if res.machinery_error:
            ctx.machinery_error("Polygon.tla: " + res.machinery_error)
        else:
            ctx.violation("model:Polygon:" + str(res.violated), "Polygon.tla violates %s" % res.violated, {})
        return st, []
    walks = []
    for s in tlc.read_dump(dump + ".dump"):
        if s["closed"]:
            walks.append(tuple(tuple(p) for p in s["walk"]))
    shutil.rmtree(os.path.dirname(dump), ignore_errors=True)
    st["closed_walks"] = len(walks)
    rng.shuffle(walks)
    walks.sort(key=len)
    # stratify by number of sides
    by = {}
    for w in walks:
        by.setdefault(len(w) - 1, []).append(w)
    sel = []
    for k in sorted(by):
        sel += by[k][:max(2, cap // max(1, len(by)))]
    st["constructed"] = len(sel)
    st["sides_histogram"] = {str(k): len(v) for k, v in by.items()}
    return st, sel


def polygon_curve(walk):
    from src.parametrization import PiecewisePolygon
    verts = [np.array([float(p[0]), float(p[1])]) for p in walk]
    lens = [int(abs(walk[i + 1][0] - walk[i][0]) + abs(walk[i + 1][1] - walk[i][1])) for i in range(len(walk) - 1)]
    c = Curve("Polygon%r" % (walk,), lambda: PiecewisePolygon(verts, closed=True), lens, True, 1.0)
    c.verts = verts
    return c


def run(prop, tier, seed):
    ctx = Ctx("C18", tier, seed)
    rng = random.Random(seed + 18)
    quick = tier == "quick"
    from ..common import setup_path
    setup_path()
    curves = shipped()
    model_stats, mesh_stats, geom = [], [], []
    n_cfg = n_events = 0
    for c in curves:
        st, cfgs = model_configs(ctx, c, 6 if c.closed else 3)
        if st.get("violated"):
            ctx.violation("model:ParamInit:%s:%s" % (c.name, st["violated"]), "ParamInit.tla violates %s for %s" % (st["violated"], c.name), st)
        model_stats.append(st)
        n_cfg += len(cfgs)
        if c.name in ("UnitSquare", "LShape"):
            # the hand-made graded tensor meshes of the driver (example.py --grading with uniform refinement):
            # h_x = 2^-(k+1), N_t = round(2^(sigma (k+1))) time slabs
            L8 = SC * sum(c.pieces)
            for kk in (0, 1):
                for sigma in (1, 1.5, 2):
                    step = SC // 2 ** (kk + 1)
                    cfgs = cfgs + [(int(round(2 ** (sigma * (kk + 1)))), tuple(range(0, L8 + 1, step)))]
        ev, meta = construct_and_refine(ctx, c, cfgs, rng, 3 if quick else 10)
        ms = judge_mesh(ctx, c, ev, meta)
        n_events += ms.get("events", 0)
        mesh_stats.append({"curve": c.name, "configs": len(cfgs), **ms})
        try:
            geom += geometry_records(c, c.make(), rng)
        except Exception as ex:
            ctx.violation("geometry:%s" % c.name, "measuring %s failed: %r" % (c.name, ex), {"curve": c.name})
        ctx.log("curve %s: %s %s" % (c.name, st, mesh_stats[-1]))
    # the guard as originally written, on the one-piece closed curve: model-level counterexample (diagnostic)
    st_old, _ = model_configs(ctx, Curve("one-piece-closed", None, [1], True, 1.0), 6, guard=False)
    defect_model = {"guard_counting_all_roots": st_old.get("violated")}
    if st_old.get("violated") != "MinThree":
        ctx.spec_drift("ParamInit with GuardPerSlab = FALSE no longer exhibits the MinThree counterexample: %r" % st_old.get("violated"))
    # polygons
    pst, walks = polygons(ctx, 2 if quick else 3, 6 if quick else 8, 40 if quick else 400, rng)
    poly_ok = poly_fail = 0
    for w in walks:
        c = polygon_curve(w)
        try:
            g = c.make()
        except AssertionError as ex:
            poly_fail += 1
            ctx.violation("polygon-rejected:%d-sides" % (len(w) - 1), "constructor rejects the rectilinear lattice polygon %r" % (w,), {"walk": [list(p) for p in w]})
            continue
        poly_ok += 1
        recs = geometry_records(c, g, rng, verts=c.verts)
        if poly_ok <= 12:
            # the curve is determined by the vertices given at construction: the caller's arrays may be reused afterwards
            from src.parametrization import PiecewisePolygon
            buf = np.array([[float(p[0]), float(p[1])] for p in w])
            g2 = PiecewisePolygon([buf[i] for i in range(len(buf))], closed=True)       # rows are views of one buffer
            xs = np.linspace(0.0, float(g2.gamma_length), 23)
            before = np.array(g2.eval(xs), dtype=float, copy=True)
            buf *= -3.0
            buf += 11.0
            after = np.asarray(g2.eval(xs), dtype=float)
            recs.append({"cls": "vertices-copied-at-construction", "dev": 0 if np.array_equal(before, after) else 10 ** 9})
        for r in recs:
            r["curve"] = "polygon"
            r["walk"] = str(w)
        geom += recs
        if poly_ok <= (6 if quick else 40):
            st, cfgs = model_configs(ctx, c, 2)
            if st.get("violated"):
                ctx.violation("model:ParamInit:polygon:%s" % st["violated"], "ParamInit.tla violates %s for polygon %r" % (st["violated"], w), st)
            cfgs = cfgs[:8] if quick else cfgs[:40]
            ev, meta = construct_and_refine(ctx, c, cfgs, rng, 2)
            ms = judge_mesh(ctx, c, ev, meta)
            n_events += ms.get("events", 0)
            n_cfg += len(cfgs)
    pst.update({"accepted": poly_ok, "rejected": poly_fail})
    ctx.log("polygons %s" % pst)
    # geometry judged
    bad, missing, jres = jd.judge(geom, GEOM_CLASSES)
    if jres.machinery_error:
        ctx.machinery_error("geometry judge: " + jres.machinery_error)
    else:
        for i, clause in bad:
            r = geom[i]
            ctx.violation("geometry:%s:%s" % (r["cls"], r["curve"]), "geometry clause %s fails on %s (piece %s): dev=%s millionths of the tolerance"
                          % (r["cls"], r.get("walk", r["curve"]), r.get("piece"), r.get("dev")), r)
        if missing:
            ctx.machinery_error("geometry classes never exercised: %r" % (missing,))
    # binding self-test: a corrupted record and a corrupted mesh event must be rejected
    st_self = {}
    g2 = [dict(r) for r in geom[:20]]
    g2[3]["dev"] = 2_000_000
    b2, m2, _ = jd.judge(g2, ["arc-length"])
    st_self["corrupted_dev_rejected"] = bool(b2)
    c0 = curves[0]
    ev, meta = construct_and_refine(ctx, c0, [(2, (0, 8, 16, 24, 32))], rng, 0)
    ev[0]["post"][0][3] = 3
    ctx2 = Ctx("C18", tier, seed)
    ctx2.quiet = True
    judge_mesh(ctx2, c0, ev, meta)
    st_self["wrong_piece_rejected"] = any(k.startswith("piece-assignment") for k, _, _ in ctx2.violations)
    if not all(st_self.values()):
        ctx.machinery_error("binding self-test failed: %r" % st_self)
    ncls = len({(r["cls"], r["curve"]) for r in geom})
    ctx.cov = {
        "evaluations": len(geom) + n_events, "distinct_nontrivial": ncls + n_cfg,
        "rule": "geometry: (clause, curve) classes over 5 shipped curves + TLC-enumerated rectilinear lattice polygons, random parameters/steps per piece; "
                "mesh: every ParamInit.tla configuration (1..6 slabs x break points + subsets of piece mid points) constructed with the real MeshParametrized "
                "and judged by TraceParamInit, plus random refinements; distinct_nontrivial = geometry classes + distinct mesh configurations",
        "samples": [geom[0], {"mesh_config": mesh_stats[0]}],
        "param_init_models": model_stats, "mesh_runs": mesh_stats, "polygon_model": pst, "defect_model": defect_model,
        "geometry_records": len(geom), "mesh_events_judged": n_events, "binding_selftest": st_self,
        "judge_tlc": jres.stats(),
    }
    ctx.assumptions = [
        "straight pieces: chord length == parameter step; circle: chord == 2 sin(h/2); tolerance 1e-12 (scaled by curve length)",
        "time grids are 0,1,...,n; space grids contain the break points bit-exactly as the curve stores them",
    ]
    return ctx.finish()
