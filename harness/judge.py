"""Runner for the generic numeric judge spec/trace/Judge.tla and helpers to quantise."""
import json
import math
import os
import re
import shutil
import tempfile

from . import tlc

CFG = """SPECIFICATION Spec
INVARIANT Report
POSTCONDITION Done
CHECK_DEADLOCK FALSE
"""


def dev(value, ref, tol):
    """ceil(1e6 * |value - ref| / tol), capped at 1e9; NaN/inf -> 1e9"""
    try:
        d = abs(float(value) - float(ref)) / float(tol)
    except Exception:
        return 10 ** 9
    if not math.isfinite(d):
        return 10 ** 9
    return int(min(10 ** 9, math.ceil(1e6 * d)))


def judge(records, required, timeout=1800, module="Judge", cfg=CFG):
    """records: list of dicts with at least cls (+ dev / flags).  Returns (bad, missing, tlc_result):
    bad = list of (record_index_0based_in_records, clause)."""
    work = tempfile.mkdtemp(prefix="judge.", dir=tlc._scratch())
    path = os.path.join(work, "trace.json")
    payload = [{"k": "header", "required": sorted(required)}]
    for r in records:
        rr = {"k": "rec"}
        for k, v in r.items():
            if k != "k" and isinstance(v, (bool, int, str)):      # "k" is the judge's own record kind
                rr[k] = v
        payload.append(rr)
    with open(path, "w") as fh:
        json.dump(payload, fh)
    res = tlc.run_tlc(module, cfg, workers=1, timeout=timeout, env={"TRACE_FILE": path})
    shutil.rmtree(work, ignore_errors=True)
    bad = missing = None
    mm = re.search(r'<<\s*"BAD",\s*(\{.*?\}),\s*"MISSING",\s*(\{.*?\})\s*>>', res.output, flags=re.S)
    if mm:
        bad = sorted((t[0] - 2, t[1]) for t in tlc.parse_value(mm.group(1)))
        missing = sorted(tlc.parse_value(mm.group(2)))
    if bad is None and res.machinery_error is None:
        res.machinery_error = "judge produced no verdict: " + res.output[-400:]
    return bad, missing, res
