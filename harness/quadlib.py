"""Projection of the real `src.initial_mesh.InitialMesh` onto spec/QuadTree.tla, operations,
measurement, real-code exploration and the TLC judge (TraceQuadTree)."""
import json
import math
import multiprocessing as mp
import os
import re
import tempfile

import numpy as np

from . import tlc
from .meshlib import ProjectionError, _dyadic


class Domain:
    """name, abstract root positions, real root boxes (x0, y0, size)"""

    def __init__(self, name, maxlevel):
        self.name = name
        self.maxlevel = maxlevel
        self.U = 2 ** maxlevel
        if name == "UnitSquare":
            self.roots = {(0, 0): (0, 0, 1)}
        elif name == "PiSquare":
            self.roots = {(0, 0): (0, 0, np.pi)}
        elif name == "LShape":
            self.roots = {(1, 0): (0, -1, 1), (1, 1): (0, 0, 1), (0, 1): (-1, 0, 1)}
        else:
            raise ValueError(name)

    def new_mesh(self):
        from src import initial_mesh as im
        return getattr(im, self.name)()

    def rootpos_tla(self):
        return "{" + ", ".join("<<%d, %d>>" % p for p in sorted(self.roots)) + "}"

    def mult_point(self, X, Y):
        for (ix, iy), (rx, ry, size) in self.roots.items():
            if ix * self.U <= X <= (ix + 1) * self.U and iy * self.U <= Y <= (iy + 1) * self.U:
                return (rx + (X - ix * self.U) * size / self.U, ry + (Y - iy * self.U) * size / self.U)
        raise ValueError((X, Y))

    def offset_point(self, X, Y):
        x, y = self.mult_point(X, Y)
        L = 4 * max(s for (_, _, s) in self.roots.values())
        return ((x + L) - L, (y + L) - L)

    def real_point(self, X, Y):
        """abstract integer point -> real coordinates (through the root that contains it, by the
        same midpoint recursion the code uses, so that the floats coincide bit for bit)"""
        for (ix, iy), (rx, ry, size) in self.roots.items():
            if ix * self.U <= X <= (ix + 1) * self.U and iy * self.U <= Y <= (iy + 1) * self.U:
                return (_descend(rx, rx + size, X - ix * self.U, self.U), _descend(ry, ry + size, Y - iy * self.U, self.U))
        raise ValueError((X, Y))


def _descend(lo, hi, off, U):
    a, b, o0, o1 = lo, hi, 0, U
    while True:
        if off == o0:
            return a
        if off == o1:
            return b
        m, om = (a + b) / 2, (o0 + o1) // 2
        if off < om:
            b, o1 = m, om
        elif off > om:
            a, o0 = m, om
        else:
            return m


def cell_tuple(elem, dom):
    x0, y0 = elem.vertices[0].x, elem.vertices[0].y
    x1, y1 = elem.vertices[2].x, elem.vertices[2].y
    for (ix, iy), (rx, ry, size) in dom.roots.items():
        if rx <= x0 and x1 <= rx + size and ry <= y0 and y1 <= ry + size:
            ox0, ox1, lx = _dyadic(rx, rx + size, x0, x1, dom.U, dom.maxlevel)
            oy0, oy1, ly = _dyadic(ry, ry + size, y0, y1, dom.U, dom.maxlevel)
            if lx != ly:
                raise ProjectionError("cell %r is not a square" % (elem,))
            return (ix * dom.U + ox0, iy * dom.U + oy0, ox1 - ox0, lx)
    raise ProjectionError("cell %r lies in no root" % (elem,))


def project(mesh, dom):
    return frozenset(cell_tuple(e, dom) for e in mesh.leaf_elements)


def cell_map(mesh, dom):
    return {cell_tuple(e, dom): e for e in mesh.leaf_elements}


def measure(mesh, dom):
    cells = [cell_tuple(e, dom) for e in mesh.leaf_elements]
    ev = {"post": [list(c) for c in sorted(cells)]}
    book = {}
    book["no-duplicate-leaves"] = len(set(cells)) == len(cells)
    book["levels"] = all(e.level == cell_tuple(e, dom)[3] for e in mesh.leaf_elements)
    coords = [(v.x, v.y) for v in mesh.vertices]
    book["vertex-unique"] = len(set(coords)) == len(coords) and [v.idx for v in mesh.vertices] == list(range(len(coords)))
    vset = set(map(id, mesh.vertices))
    book["corners-registered"] = all(id(v) in vset for e in mesh.leaf_elements for v in e.vertices)
    book["leaves-are-elements"] = all(any(e is f for f in mesh.elements) for e in mesh.leaf_elements) if len(mesh.elements) < 400 else True
    ev["book"] = book
    return ev


FORMS = ("tuple", "list", "array")


def apply_op(mesh, dom, op):
    """op = ("refine", cell) | ("uniform",) | ("target", seg, flipped, form).  Returns extra
    observations (for target)."""
    kind = op[0]
    if kind == "refine":
        mesh.refine(cell_map(mesh, dom)[tuple(op[1])])
        return {}
    if kind == "uniform":
        mesh.uniform_refine()
        return {}
    if kind == "target":
        g = op[1]
        flipped = op[2] if len(op) > 2 else False
        form = op[3] if len(op) > 3 else "tuple"
        p0 = dom.real_point(g[0], g[1])
        p1 = dom.real_point(g[2], g[3])
        # how a caller may have computed the end points: bit-identical to the mesh's own bisection ("tuple" form), by a
        # single multiplication k * side / 2^l ("list" form), or with an offset added and removed as the boundary
        # parametrisation does ("array" form); the last two can differ from the mesh vertices in the last bit
        if form == "list":
            p0, p1 = dom.mult_point(g[0], g[1]), dom.mult_point(g[2], g[3])
        elif form == "array":
            p0, p1 = dom.offset_point(g[0], g[1]), dom.offset_point(g[2], g[3])
        if flipped:
            p0, p1 = p1, p0

        def conv(p):
            if form == "tuple":
                return (p[0], p[1])
            if form == "list":
                return [p[0], p[1]]
            return np.array([[float(p[0])], [float(p[1])]])
        elem = mesh.refine_msh_bdr(conv(p0), conv(p1))
        obs = {}
        try:
            c = cell_tuple(elem, dom)
            x, y, h, l = c
            edges = [(x, y, x + h, y), (x + h, y, x + h, y + h), (x, y + h, x + h, y + h), (x, y, x, y + h)]
            obs["ret_has_edge"] = tuple(g) in edges and any(elem is e for e in mesh.leaf_elements)
        except Exception:
            obs["ret_has_edge"] = False
        try:
            # end points are looked up in the same form they were passed in (InitialOperator.linform
            # passes the 2x1 arrays returned by the curve parametrisation)
            v0 = mesh.vertex_from_coords(conv(p0))
            v1 = mesh.vertex_from_coords(conv(p1))
            obs["endpoints_found"] = v0 is not None and v1 is not None
        except AssertionError:
            obs["endpoints_found"] = False
        except TypeError as ex:
            obs["endpoints_found"] = False
            obs["lookup_exc"] = "TypeError in vertex_from_coords (%s end points)" % form
        return obs
    raise ValueError(kind)


def replay(dom, ops):
    mesh = dom.new_mesh()
    for op in ops:
        apply_op(mesh, dom, op)
    return mesh


def exc_text(ex):
    import traceback
    tb = traceback.extract_tb(ex.__traceback__)
    where = ""
    for fr in reversed(tb):
        if "/src/" in fr.filename:
            where = " at %s:%d" % (os.path.basename(fr.filename), fr.lineno)
            break
    msg = str(ex).split("\n")[0][:100]
    return "%s%s%s" % (type(ex).__name__, where, (": " + msg) if msg else "")


def do_event(mesh, dom, op):
    ev = {"k": op[0], "exc": ""}
    if op[0] == "refine":
        ev["c"] = list(op[1])
    if op[0] == "target":
        ev["g"] = list(op[1])
        ev["flipped"] = bool(op[2]) if len(op) > 2 else False
        ev["form"] = op[3] if len(op) > 3 else "tuple"
    try:
        obs = apply_op(mesh, dom, op)
        ev.update(obs)
    except RecursionError:
        ev["exc"] = "RecursionError"
    except Exception as ex:
        ev["exc"] = exc_text(ex)
    if ev["exc"]:
        ev["post"] = []
        return ev
    try:
        ev.update(measure(mesh, dom))
    except ProjectionError as ex:
        ev["exc"] = "ProjectionError: " + str(ex)[:120]
        ev["post"] = []
    return ev


def reset_event(mesh, dom):
    ev = {"k": "reset", "exc": ""}
    ev.update(measure(mesh, dom))
    return ev


def all_segments(dom, segmaxl):
    segs = []
    U = dom.U
    for (ix, iy) in sorted(dom.roots):
        for s in (1, 2, 3, 4):
            qx, qy = {1: (ix, iy - 1), 2: (ix + 1, iy), 3: (ix, iy + 1), 4: (ix - 1, iy)}[s]
            if (qx, qy) in dom.roots:
                continue
            for l in range(segmaxl + 1):
                g = U // 2 ** l
                for k in range(2 ** l):
                    x, y = ix * U, iy * U
                    if s == 1:
                        segs.append((x + k * g, y, x + (k + 1) * g, y))
                    elif s == 3:
                        segs.append((x + k * g, y + U, x + (k + 1) * g, y + U))
                    elif s == 4:
                        segs.append((x, y + k * g, x, y + (k + 1) * g))
                    else:
                        segs.append((x + U, y + k * g, x + U, y + (k + 1) * g))
    return segs


def contains_seg(c, g):
    x, y, h, l = c
    for e in ((x, y, x + h, y), (x + h, y, x + h, y + h), (x, y + h, x + h, y + h), (x, y, x, y + h)):
        if e[1] == e[3] and g[1] == g[3] and e[1] == g[1] and e[0] <= g[0] and g[2] <= e[2]:
            return True
        if e[0] == e[2] and g[0] == g[2] and e[0] == g[0] and e[1] <= g[1] and g[3] <= e[3]:
            return True
    return False


# ------------------------------------------------------------------------------------
# exploration of the real object
# ------------------------------------------------------------------------------------
def _expand(args):
    dom, path, ops, segmaxl, expand = args
    mesh = replay(dom, path)
    try:
        ev = reset_event(mesh, dom)
    except ProjectionError as ex:
        return {"path": path, "state": None, "problem": str(ex), "succ": []}
    state = frozenset(map(tuple, ev["post"]))
    res = {"path": path, "state": state, "ev": ev, "succ": []}
    if len(state) > len(dom.roots) + 3 * expand_budget(dom):
        return res
    cand = []
    if "refine" in ops:
        cand += [("refine", c) for c in sorted(state) if c[3] < dom.maxlevel]
    if "uniform" in ops and len({c[3] for c in state}) == 1 and all(c[3] < dom.maxlevel for c in state):
        cand.append(("uniform",))
    if "target" in ops:
        n = 0
        for g in all_segments(dom, segmaxl):
            if not any(contains_seg(c, g) for c in state):
                continue        # precondition of refine_msh_bdr (see QuadTree.TargetBdr)
            for flipped in (False, True):
                cand.append(("target", g, flipped, FORMS[n % 3]))
                n += 1
    for op in cand:
        m2 = replay(dom, path)
        e2 = do_event(m2, dom, op)
        res["succ"].append((op, e2))
    return res


def expand_budget(dom):
    return dom.budget


def explore(dom, ops, budget, segmaxl, procs=16):
    dom.budget = budget
    seen, events, edges, fails, tevents = {}, {}, set(), [], []
    frontier = [()]
    pool = mp.get_context("fork").Pool(procs)
    try:
        depth = 0
        while frontier:
            jobs = [(dom, p, ops, segmaxl, True) for p in frontier]
            results = pool.map(_expand, jobs, chunksize=max(1, len(jobs) // (procs * 4)))
            nxt = []
            for r in results:
                if r["state"] is None:
                    fails.append((r["path"], ("project",), r["problem"]))
                    continue
                sid = r["state"]
                if sid not in seen:
                    seen[sid] = r["path"]
                events[sid] = r["ev"]
                for op, e2 in r["succ"]:
                    if e2["exc"]:
                        fails.append((r["path"], op, e2["exc"]))
                        continue
                    pid = frozenset(map(tuple, e2["post"]))
                    edges.add((sid, pid))
                    if op[0] == "target":
                        tevents.append((r["path"], r["ev"], e2))
                    if pid not in seen:
                        seen[pid] = r["path"] + (op,)
                        nxt.append(r["path"] + (op,))
            frontier = nxt
            depth += 1
    finally:
        pool.close()
        pool.join()
    return {"states": seen, "events": events, "edges": edges, "fails": fails, "target_events": tevents}


_NODE = re.compile(r'^(-?\d+) \[label="((?:[^"\\]|\\.)*)"', re.M)
_EDGE = re.compile(r'^(-?\d+) -> (-?\d+)', re.M)


def read_dot(path):
    with open(path) as fh:
        txt = fh.read()
    nodes = {}
    for m in _NODE.finditer(txt):
        lab = m.group(2).replace("\\n", "\n").replace('\\"', '"').replace("\\\\", "\\")
        st = tlc.parse_state(lab)
        nodes[m.group(1)] = (frozenset((c["x"], c["y"], c["h"], c["l"]) for c in st["leaves"]), st)
    edges = set()
    for m in _EDGE.finditer(txt):
        a, b = m.group(1), m.group(2)
        if a in nodes and b in nodes:
            edges.add((nodes[a][0], nodes[b][0]))
    return nodes, edges


# ------------------------------------------------------------------------------------
# judge
# ------------------------------------------------------------------------------------
MC = """---- MODULE MCTraceQuadTree ----
EXTENDS TraceQuadTree
RootPosDef == %s
====
"""
CFG = """CONSTANTS RootPos <- RootPosDef MaxLevel = %d Budget = 0 SegMaxL = 0 Ops = {}
SPECIFICATION TraceSpec
INVARIANT Report
POSTCONDITION TraceDone
CHECK_DEADLOCK FALSE
"""


def judge(dom, events, timeout=1800):
    work = tempfile.mkdtemp(prefix="qtrace.", dir=tlc._scratch())
    path = os.path.join(work, "trace.json")
    with open(path, "w") as fh:
        json.dump(events, fh)
    res = tlc.run_tlc("MCTraceQuadTree", CFG % dom.maxlevel, workers=1, timeout=timeout, env={"TRACE_FILE": path},
                      aux_files={"MCTraceQuadTree.tla": MC % dom.rootpos_tla()})
    import shutil
    shutil.rmtree(work, ignore_errors=True)
    bad = None
    mm = re.search(r'<<\s*"BAD",\s*(\{.*?\})\s*>>', res.output, flags=re.S)
    if mm:
        bad = sorted((t[0], t[1]) for t in tlc.parse_value(mm.group(1)))
    if bad is None and res.machinery_error is None:
        res.machinery_error = "judge produced no verdict: " + res.output[-400:]
    return bad, res
