"""Recording traces of the real Mesh (code -> spec) and judging them with TLC.

Runtime wrapping only (DESIGN §4.2): `Mesh.refine_axis` is wrapped in the harness process to
observe which elements a compound operation bisects at top level (the *marked* elements of a
Doerfler step); nothing in /repo is modified.
"""
import contextlib
import io
import json
import os
import random
import re
import tempfile

from . import meshlib as ml
from . import tlc


class AxisRecorder:
    """Wraps Mesh.refine_axis; records top-level calls (depth 0) made while active."""

    def __init__(self, lay):
        self.lay = lay
        self.calls = []
        self.depth = 0

    def __enter__(self):
        from src.mesh import Mesh
        self.Mesh = Mesh
        self.orig = Mesh.refine_axis
        rec = self

        def wrapped(mesh, elem, ax):
            top = rec.depth == 0
            if top:
                try:
                    key = ml.leaf_tuple(elem, rec.lay)
                except ml.ProjectionError:
                    key = None
                rec.calls.append((key, ax, elem))
            rec.depth += 1
            try:
                return rec.orig(mesh, elem, ax)
            finally:
                rec.depth -= 1

        Mesh.refine_axis = wrapped
        return self

    def __exit__(self, *a):
        self.Mesh.refine_axis = self.orig


def exc_text(ex):
    import traceback
    tb = traceback.extract_tb(ex.__traceback__)
    where = ""
    for fr in reversed(tb):
        if "/src/" in fr.filename or fr.filename.endswith("example.py"):
            where = " at %s:%d" % (os.path.basename(fr.filename), fr.lineno)
            break
    msg = str(ex).split("\n")[0][:120]
    return "%s%s%s" % (type(ex).__name__, where, (": " + msg) if msg else "")


def do_event(mesh, lay, op, with_nbrs=True, grade_consts=None):
    """Execute one operation on the real mesh and return the trace event."""
    kind = op[0]
    ev = {"k": kind, "exc": ""}
    pre = ml.project(mesh, lay)
    preset = set(pre)
    if kind in ("bisect", "both"):
        ev["e"] = list(op[1])
        if kind == "bisect":
            ev["ax"] = op[2]
    rec = None
    try:
        if kind in ("dorfler_iso", "dorfler_aniso"):
            ev["k"] = "dorfler"
            ev["kind"] = kind
            ev["theta"] = op[2]
            if len(op) > 3:
                ev["etai"] = op[1]
                ev["th2"] = list(op[3]["th2"])
                ev["judge_marking"] = bool(op[3]["judge"])
            with AxisRecorder(lay) as rec:
                sc = op[3].get("scale", 1.0) if len(op) > 3 else 1.0
                form = op[3].get("form", "c") if len(op) > 3 else "c"
                if form != "c":
                    ev["form"] = form
                if sc != 1.0 or form != "c":
                    # indicators scaled by a power of two: sums and comparisons stay exact, the marked set must not change
                    import numpy as np
                    ev["scale"] = sc
                    ml.apply_op(mesh, lay, (op[0], (np.array(op[1], dtype=float) * sc).tolist(), op[2], form))
                else:
                    ml.apply_op(mesh, lay, op[:3])
        else:
            ml.apply_op(mesh, lay, op)
    except RecursionError as ex:
        ev["exc"] = "RecursionError"
    except Exception as ex:
        ev["exc"] = exc_text(ex)
    if ev["exc"]:
        ev["post"] = []
        return ev
    if rec is not None:
        mt, ms = [], []
        for key, ax, elem in rec.calls:
            if ax == 0:
                mt.append(list(key) if key else [0, 0, 0, 0, 0, 0])
            else:
                if key in preset:
                    ms.append(list(key))
                else:
                    p = elem.parent
                    try:
                        pk = ml.leaf_tuple(p, lay) if p is not None else None
                    except ml.ProjectionError:
                        pk = None
                    ms.append(list(pk) if pk else [0, 0, 0, 0, 0, 0])
        ev["mt"] = mt
        # a marked parent appears once per time child
        seen, ms2 = set(), []
        for k in ms:
            if tuple(k) not in seen:
                seen.add(tuple(k))
                ms2.append(k)
        ev["ms"] = ms2
    if kind == "grade":
        ev.update(grade_consts or {})
    try:
        ev.update(ml.measure(mesh, lay, with_nbrs=with_nbrs))
    except ml.ProjectionError as ex:
        ev["exc"] = "ProjectionError: " + str(ex)[:150]
        ev["post"] = []
    return ev


def reset_event(mesh, lay, with_nbrs=True):
    ev = {"k": "reset", "exc": ""}
    ev.update(ml.measure(mesh, lay, with_nbrs=with_nbrs))
    return ev


def random_history(lay, rng, steps, bias_space=0.5, p_both=0.1, max_leaves=120, with_nbrs=True,
                   compound=0.0, companions=0.0):
    """One trace: reset + `steps` random operations on a fresh real mesh.
    companions: probability per step of constructing another mesh object and refining it a little in between (meshes of
    one process are independent objects: what happens to one must not show in the bookkeeping of another)."""
    import contextlib
    import io
    mesh = lay.new_mesh()
    events = [reset_event(mesh, lay, with_nbrs)]
    others = []
    for _ in range(steps):
        if companions and rng.random() < companions:
            try:
                with contextlib.redirect_stdout(io.StringIO()):
                    if not others or rng.random() < 0.5:
                        others.append(lay.new_mesh())
                    o = rng.choice(others)
                    if len(o.leaf_elements) < 40:
                        o.refine_axis(rng.choice(list(o.leaf_elements)), rng.randrange(2))
            except Exception as ex:
                # a legal operation on another mesh object fails: recorded on this trace as a failed call
                ev = {"k": "obs", "exc": "companion mesh: " + exc_text(ex)}
                ev["post"] = events[-1]["post"]
                events.append(ev)
                others = []
        order = [tuple(a) for a in events[-1]["post"]] if events[-1]["exc"] == "" else None
        if order is None or len(order) > max_leaves:
            break
        r = rng.random()
        if compound and r < compound and len(order) * 4 <= max_leaves and all(k[4] < lay.maxl - 1 and k[5] < lay.maxl - 1 for k in order):
            op = ("uniform",) if rng.random() < 0.5 else ("uspace",)
        else:
            # prefer leaves that can still be refined
            cands = [k for k in order if k[4] < lay.maxl or k[5] < lay.maxl]
            if not cands:
                break
            k = rng.choice(cands)
            ax = 1 if rng.random() < bias_space else 0
            if k[4 + ax] >= lay.maxl:
                ax = 1 - ax
            if rng.random() < p_both and k[4] < lay.maxl and k[5] < lay.maxl:
                op = ("both", k)
            else:
                op = ("bisect", k, ax)
        events.append(do_event(mesh, lay, op, with_nbrs))
    return events


# ------------------------------------------------------------------------------------
# judge
# ------------------------------------------------------------------------------------
TRACE_CFG = """CONSTANTS Nt = %(Nt)d Nx = %(Nx)d Glue = %(Glue)s MaxL = %(MaxL)d Budget = 0 Ops = {} SortSpace = TRUE GradeSkip = TRUE P = 4 CTn = 4 CSn = 4
SPECIFICATION TraceSpec
INVARIANT Report
POSTCONDITION TraceDone
CHECK_DEADLOCK FALSE
"""


def judge(lay, events, timeout=900, keep=None):
    """Run TraceSTMesh on the concatenated events.  Returns (bad, tlc_result) where bad is a
    list of (event_index_1based, clause)."""
    work = tempfile.mkdtemp(prefix="trace.", dir=tlc._scratch())
    path = os.path.join(work, "trace.json")
    with open(path, "w") as fh:
        json.dump(events, fh)
    cfg = TRACE_CFG % {"Nt": lay.Nt, "Nx": lay.Nx, "Glue": "TRUE" if lay.glue else "FALSE", "MaxL": lay.maxl}
    res = tlc.run_tlc("TraceSTMesh", cfg, workers=1, timeout=timeout, env={"TRACE_FILE": path})
    bad = None
    mm = re.search(r'<<\s*"BAD",\s*(\{.*?\})\s*>>', res.output, flags=re.S)
    if mm:
        val = tlc.parse_value(mm.group(1))
        bad = sorted((t[0], t[1]) for t in val)
    import shutil
    shutil.rmtree(os.path.dirname(work) if False else work, ignore_errors=True)
    if bad is None and res.machinery_error is None:
        res.machinery_error = "judge produced no verdict: " + res.output[-500:]
    if res.violated and res.machinery_error is None and bad is None:
        res.machinery_error = "trace not consumed: " + str(res.violated)
    return bad, res
