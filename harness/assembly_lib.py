"""Real execution of Assembly.tla behaviours: real cache directory, real pools, real faults."""
import contextlib
import glob
import io
import json
import os
import re
import shutil
import tempfile

import numpy as np

from . import tlc

KINDS = ("empty", "header", "half", "short1", "garbage")


def project_file(path, valid_bytes=None):
    """byte-length class of a cache file (DESIGN 4.1 proj_disk)"""
    if not os.path.exists(path):
        return "absent"
    data = open(path, "rb").read()
    n = len(data)
    if n == 0:
        return "empty"
    try:
        arr = np.load(path)
        arr.shape
        return "valid"
    except Exception:
        pass
    # header length of an .npy file
    hl = None
    if data[:6] == b"\x93NUMPY" and n >= 10:
        hl = 10 + int.from_bytes(data[8:10], "little")
    if hl is None:
        return "garbage"
    if n <= hl:
        return "header"
    if valid_bytes is not None and n == valid_bytes - 1:
        return "short1"
    return "half"


def damage(path, kind, rng):
    data = open(path, "rb").read()
    hl = 10 + int.from_bytes(data[8:10], "little")
    if kind == "empty":
        new = b""
    elif kind == "header":
        new = data[:hl]
    elif kind == "half":
        new = data[:hl + (len(data) - hl) // 2]
    elif kind == "short1":
        new = data[:-1]
    else:
        new = bytes(rng.randrange(256) for _ in range(len(data)))
        if new[:6] == b"\x93NUMPY":
            new = b"x" + new[1:]
    with open(path, "wb") as fh:
        fh.write(new)


class Harness:
    """inputs: name -> dict(call=callable(use_mp) -> array, ref=array)"""

    def __init__(self, inputs, cache_dir, rng):
        self.inputs = inputs
        self.dir = cache_dir
        self.rng = rng
        self.file_of = {}      # input -> path
        self.valid_len = {}

    def files(self):
        return sorted(glob.glob(os.path.join(self.dir, "*")))

    def snapshot(self):
        return {p: open(p, "rb").read() for p in self.files()}

    def disk(self):
        out = {}
        for name in self.inputs:
            p = self.file_of.get(name)
            out[name] = "absent" if p is None else project_file(p, self.valid_len.get(name))
        return out

    def reset(self):
        for p in self.files():
            os.remove(p)
        self.file_of.clear()
        self.valid_len.clear()
        return {"k": "reset", "exc": "", "disk": self.disk()}

    def call(self, name, mp_flag, w, crash_kind=None):
        import multiprocessing
        inp = self.inputs[name]
        before = self.snapshot()
        buf = io.StringIO()
        ev = {"k": "call" if crash_kind is None else "crash", "in": name, "mp": bool(mp_flag), "w": int(w), "exc": ""}
        orig_cpu = multiprocessing.cpu_count
        pools = []
        orig_pool = multiprocessing.Pool

        def pool_spy(*a, **k):
            p = orig_pool(*a, **k)
            pools.append(p)
            return p
        multiprocessing.cpu_count = lambda: int(w)
        multiprocessing.Pool = pool_spy
        try:
            with contextlib.redirect_stdout(buf):
                out = inp["call"](bool(mp_flag))
        except Exception as ex:
            ev["exc"] = "%s: %s" % (type(ex).__name__, str(ex)[:100])
            out = None
        finally:
            multiprocessing.cpu_count = orig_cpu
            multiprocessing.Pool = orig_pool
            # the pools belong to the code under test (it may legitimately keep one alive between calls): they are
            # not terminated here, only counted; unreferenced pools are reclaimed by the garbage collector
            npools = len(pools)
            pools = [None] * npools
        text = buf.getvalue()
        after = self.snapshot()
        changed = [p for p in after if before.get(p) != after[p]]
        own = True
        for p in changed:
            owner = [n for n, q in self.file_of.items() if q == p]
            if owner and owner[0] != name:
                own = False
            self.file_of[name] = p
            self.valid_len[name] = len(after[p])
        if len(changed) > 1:
            own = False
        if ev["exc"]:
            ev["disk"] = self.disk()
            return ev
        if crash_kind is not None:
            # the process dies inside np.save: damaged file, no result
            p = self.file_of.get(name)
            if p:
                damage(p, crash_kind, self.rng)
            ev["kind"] = crash_kind
            ev["disk"] = self.disk()
            return ev
        ref = inp["ref"]
        out = np.asarray(out)
        ev["equal"] = bool(out.shape == ref.shape and out.dtype == ref.dtype and out.tobytes() == ref.tobytes())
        if "Loaded" in text:
            ev["path"] = "hit"
        elif pools:
            ev["path"] = "pool"
        elif "took" in text or "Stored" in text:
            ev["path"] = "serial"
        else:
            ev["path"] = "inline"
        ev["own_file_only"] = own
        ev["disk"] = self.disk()
        return ev

    def truncate(self, name, kind):
        p = self.file_of.get(name)
        ev = {"k": "truncate", "in": name, "kind": kind, "exc": ""}
        if p and os.path.exists(p):
            damage(p, kind, self.rng)
        ev["disk"] = self.disk()
        return ev

    def delete(self, name):
        p = self.file_of.get(name)
        if p and os.path.exists(p):
            os.remove(p)
        self.file_of.pop(name, None)
        return {"k": "delete", "in": name, "exc": "", "disk": self.disk()}


CFG_T = """CONSTANTS Inputs = %(Inputs)s SmallInputs = %(Small)s NCols = 2 Workers = {1} HasInline = %(HasInline)s MaxCalls = 0 MaxFaults = 0 PersistentPool = FALSE
SPECIFICATION TraceSpec
INVARIANT Report
POSTCONDITION TraceDone
CHECK_DEADLOCK FALSE
"""


def judge(events, inputs, small, has_inline=True, timeout=900):
    work = tempfile.mkdtemp(prefix="asm.", dir=tlc._scratch())
    path = os.path.join(work, "trace.json")
    with open(path, "w") as fh:
        json.dump(events, fh)
    fmt = lambda s: "{" + ", ".join('"%s"' % x for x in sorted(s)) + "}"
    res = tlc.run_tlc("TraceAssembly", CFG_T % {"Inputs": fmt(inputs), "Small": fmt(small), "HasInline": "TRUE" if has_inline else "FALSE"},
                      workers=1, timeout=timeout, env={"TRACE_FILE": path})
    shutil.rmtree(work, ignore_errors=True)
    bad = None
    mm = re.search(r'<<\s*"BAD",\s*(\{.*?\})\s*>>', res.output, flags=re.S)
    if mm:
        bad = sorted((t[0], t[1]) for t in tlc.parse_value(mm.group(1)))
    if bad is None and res.machinery_error is None:
        res.machinery_error = "judge produced no verdict: " + res.output[-400:]
    return bad, res
