"""Thin driver around TLC (tla2tools.jar) plus a parser for TLA+ values.

All checks call TLC through `run_tlc`; the JVM is started directly with the serial
collector (the `tlc` wrapper script is 15-50x slower on this kernel, DESIGN §2.1).
Exit status convention of the framework: a *property verdict* is never derived from a
TLC crash -- `TLCResult.machinery_error` is set instead and the caller exits 2.
"""
import os
import re
import shutil
import subprocess
import tempfile
import time

JAR = "/opt/veriftools/tla/tla2tools.jar"
DEPS = "/opt/veriftools/tla/CommunityModules-deps.jar"
SPEC_DIR = os.path.join(os.path.dirname(os.path.dirname(os.path.abspath(__file__))), "spec")


class TLCResult:
    def __init__(self):
        self.ok = False                # TLC finished and found no violation
        self.violated = None           # name of violated invariant / property, if any
        self.error_kind = None         # 'invariant' | 'property' | 'assert' | 'deadlock' | 'eval' | None
        self.machinery_error = None    # parse error, timeout, crash ...
        self.generated = 0
        self.distinct = 0
        self.depth = 0
        self.output = ""
        self.wall_s = 0.0
        self.cex = []                  # counterexample states (raw text blocks)
        self.coverage = {}             # action -> (distinct, total)
        self.printed = []              # PrintT outputs (raw strings)
        self.cmd = ""

    def stats(self):
        return {"generated": self.generated, "distinct": self.distinct, "depth": self.depth,
                "wall_s": round(self.wall_s, 2)}


def _scratch():
    base = os.environ.get("VERIF_SCRATCH") or os.path.join(
        os.path.dirname(SPEC_DIR), ".scratch")
    os.makedirs(base, exist_ok=True)
    return tempfile.mkdtemp(prefix="tlc.", dir=base)


def run_tlc(module, cfg_text, workers=16, timeout=600, simulate=None, dump=None,
            env=None, depth=None, coverage=False, extra=None, heap="8g", deque=False,
            seed=None, keep_dir=None, spec_dirs=None, aux_files=None):
    """Run TLC on spec/<module>.tla with the given configuration text.

    module      module name (file SPEC_DIR/<module>.tla or an absolute path)
    simulate    e.g. "num=100" -> -simulate num=100 (behaviour files if file=... given)
    dump        path: -dump <path>  (TLC appends .dump)
    env         extra environment variables (e.g. TRACE_FILE for IOEnv)
    aux_files   {name: text} extra files placed next to the cfg (generated modules)
    """
    res = TLCResult()
    work = keep_dir or _scratch()
    os.makedirs(work, exist_ok=True)
    try:
        if os.path.isabs(module):
            src_dir, mod = os.path.dirname(module), os.path.splitext(os.path.basename(module))[0]
        else:
            src_dir, mod = SPEC_DIR, module
        # copy all spec modules next to the cfg so EXTENDS/INSTANCE resolve
        for d in [SPEC_DIR, os.path.join(SPEC_DIR, "trace")] + list(spec_dirs or []) + [src_dir]:
            if os.path.isdir(d):
                for fn in os.listdir(d):
                    if fn.endswith(".tla"):
                        shutil.copy(os.path.join(d, fn), os.path.join(work, fn))
        for name, text in (aux_files or {}).items():
            with open(os.path.join(work, name), "w") as fh:
                fh.write(text)
        cfg = os.path.join(work, mod + ".cfg")
        with open(cfg, "w") as fh:
            fh.write(cfg_text)
        # TLC leaves one tlc-<n> directory per run under java.io.tmpdir: keep it inside the work directory, which is removed
        jtmp = os.path.join(work, "jtmp")
        os.makedirs(jtmp, exist_ok=True)
        cmd = ["java", "-XX:+UseSerialGC", "-Xmx" + heap, "-Xss64m", "-Djava.io.tmpdir=" + jtmp]
        if deque:
            cmd.append("-Dtlc2.tool.queue.IStateQueue=StateDeque")
        cmd += ["-cp", JAR + ":" + DEPS, "tlc2.TLC", "-workers", str(workers),
                "-metadir", os.path.join(work, "meta"), "-noGenerateSpecTE", "-config", cfg]
        if simulate:
            cmd += ["-simulate", simulate]
        if depth:
            cmd += ["-depth", str(depth)]
        if seed is not None:
            cmd += ["-seed", str(seed)]
        if dump:
            cmd += ["-dump", dump]
        if coverage:
            cmd += ["-coverage", "1"]
        cmd += list(extra or [])
        cmd.append(os.path.join(work, mod + ".tla"))
        res.cmd = " ".join(cmd)
        e = dict(os.environ)
        e.update(env or {})
        t0 = time.time()
        try:
            p = subprocess.run(cmd, cwd=work, env=e, stdout=subprocess.PIPE,
                               stderr=subprocess.STDOUT, timeout=timeout, text=True)
            out = p.stdout
            rc = p.returncode
        except subprocess.TimeoutExpired as ex:
            out = (ex.stdout or b"")
            if isinstance(out, bytes):
                out = out.decode("utf-8", "replace")
            res.machinery_error = "timeout after %ss" % timeout
            rc = -1
            subprocess.run(["pkill", "-f", "metadir " + os.path.join(work, "meta")],
                           stdout=subprocess.DEVNULL, stderr=subprocess.DEVNULL)
        res.wall_s = time.time() - t0
        res.output = out
        _parse_output(res, out, rc, simulate is not None)
    finally:
        if keep_dir is None:
            shutil.rmtree(work, ignore_errors=True)
    return res


_STATS = re.compile(r"(\d+) states generated, (\d+) distinct states found")
_DEPTH = re.compile(r"The depth of the complete state graph search is (\d+)")


def _parse_output(res, out, rc, simulating):
    for m in _STATS.finditer(out):
        res.generated, res.distinct = int(m.group(1)), int(m.group(2))
    m = _DEPTH.search(out)
    if m:
        res.depth = int(m.group(1))
    m = re.search(r"Invariant (\S+) is violated", out)
    if m:
        res.violated, res.error_kind = m.group(1), "invariant"
    m = re.search(r"The invariant of (\S+) is equal to FALSE", out)
    if m and not res.violated:
        res.violated, res.error_kind = m.group(1), "invariant"
    m = re.search(r"Action property (\S+) is violated", out)
    if m and not res.violated:
        res.violated, res.error_kind = m.group(1), "property"
    m = re.search(r"Temporal properties were violated", out)
    if m and not res.violated:
        res.violated, res.error_kind = "temporal", "property"
    if "Deadlock reached" in out and not res.violated:
        res.violated, res.error_kind = "deadlock", "deadlock"
    m = re.search(r"The first argument of Assert evaluated to FALSE; the second argument was:\s*\n?(.*)", out)
    if m and not res.violated:
        res.violated, res.error_kind = "Assert:" + m.group(1).strip(), "assert"
    m = re.search(r"Error: The postcondition (\S+)? ?(?:was|is) (?:violated|false)", out)
    if "postcondition" in out.lower() and ("violated" in out.lower() or "false" in out.lower()) and not res.violated:
        mm = re.search(r"[Pp]ostcondition (\S+)", out)
        res.violated, res.error_kind = (mm.group(1) if mm else "POSTCONDITION"), "postcondition"
    res.printed = []
    if res.machinery_error is None:
        finished = ("Model checking completed" in out or "Finished in" in out or
                    (simulating and "The number of states generated" in out))
        if res.violated:
            res.ok = False
        elif "Error:" in out or "error" in out.lower() and "0 error" not in out.lower() and not finished:
            # genuine TLC/eval/parse failure
            mm = re.search(r"Error: (.*)", out)
            res.machinery_error = "TLC error: " + (mm.group(1)[:300] if mm else out[-400:])
        elif not finished and rc != 0:
            res.machinery_error = "TLC exit %s: %s" % (rc, out[-400:])
        else:
            res.ok = True
    # counterexample states
    res.cex = re.findall(r"^State \d+: .*?\n(.*?)(?=\n\n|\Z)", out, flags=re.S | re.M)
    # coverage lines: <Action line ...>: distinct:total
    for m in re.finditer(r"^<(\w+) line [^>]*>: (\d+):(\d+)", out, flags=re.M):
        a = m.group(1)
        d, t = int(m.group(2)), int(m.group(3))
        od, ot = res.coverage.get(a, (0, 0))
        res.coverage[a] = (od + d, ot + t)


# --------------------------------------------------------------------------------------
# TLA+ value parser (output syntax of TLC: dump files, counterexamples, simulate files)
# --------------------------------------------------------------------------------------

class _P:
    def __init__(self, s):
        self.s = s
        self.i = 0

    def ws(self):
        s = self.s
        n = len(s)
        while self.i < n and s[self.i] in " \t\r\n":
            self.i += 1

    def peek(self, k=1):
        return self.s[self.i:self.i + k]

    def expect(self, tok):
        self.ws()
        if not self.s.startswith(tok, self.i):
            raise ValueError("expected %r at %d: %r" % (tok, self.i, self.s[self.i:self.i + 40]))
        self.i += len(tok)

    def value(self):
        self.ws()
        s = self.s
        c = s[self.i]
        if c == '"':
            j = self.i + 1
            buf = []
            while s[j] != '"':
                if s[j] == "\\":
                    j += 1
                buf.append(s[j])
                j += 1
            self.i = j + 1
            return "".join(buf)
        if c == "{":
            self.i += 1
            items = self.items("}")
            return frozenset(items)
        if s.startswith("<<", self.i):
            self.i += 2
            items = self.items(">>")
            return tuple(items)
        if c == "[":
            self.i += 1
            rec = {}
            self.ws()
            if self.peek() == "]":
                self.i += 1
                return Rec(rec)
            while True:
                self.ws()
                m = re.compile(r"[A-Za-z_][A-Za-z0-9_]*").match(s, self.i)
                key = m.group(0)
                self.i = m.end()
                self.expect("|->")
                rec[key] = self.value()
                self.ws()
                if self.peek() == ",":
                    self.i += 1
                    continue
                self.expect("]")
                return Rec(rec)
        if c == "(":
            # function  (a :> b @@ c :> d)
            self.i += 1
            fn = {}
            while True:
                k = self.value()
                self.expect(":>")
                v = self.value()
                fn[k] = v
                self.ws()
                if self.s.startswith("@@", self.i):
                    self.i += 2
                    continue
                self.expect(")")
                return Rec(fn)
        m = re.compile(r"-?\d+").match(s, self.i)
        if m:
            self.i = m.end()
            return int(m.group(0))
        m = re.compile(r"[A-Za-z_][A-Za-z0-9_]*").match(s, self.i)
        if m:
            self.i = m.end()
            w = m.group(0)
            if w == "TRUE":
                return True
            if w == "FALSE":
                return False
            return w  # model value
        raise ValueError("cannot parse at %d: %r" % (self.i, s[self.i:self.i + 40]))

    def items(self, close):
        out = []
        self.ws()
        if self.s.startswith(close, self.i):
            self.i += len(close)
            return out
        while True:
            out.append(self.value())
            self.ws()
            if self.peek() == ",":
                self.i += 1
                continue
            self.expect(close)
            return out


class Rec(dict):
    """hashable record / function value"""
    def __hash__(self):
        return hash(frozenset(self.items()))

    def __getattr__(self, k):
        try:
            return self[k]
        except KeyError:
            raise AttributeError(k)


def parse_value(text):
    p = _P(text)
    v = p.value()
    return v


def parse_state(block):
    """Parse a conjunction-list state  '/\\ x = ...\\n/\\ y = ...' into a dict."""
    st = {}
    # split on lines starting with '/\ name ='
    parts = re.split(r"(?:^|\n)\s*/\\ ", "\n" + block.strip())
    if len(parts) <= 1:
        parts = ["", block.strip()]
    for part in parts:
        part = part.strip()
        if not part:
            continue
        m = re.match(r"([A-Za-z_][A-Za-z0-9_]*) = ", part)
        if not m:
            continue
        st[m.group(1)] = parse_value(part[m.end():])
    return st


def read_dump(path, only=None):
    """Yield states (dicts) of a TLC -dump file; `only`: substring a state block must contain."""
    with open(path) as fh:
        txt = fh.read()
    for blk in re.split(r"^State \d+:\s*$", txt, flags=re.M):
        blk = blk.strip()
        if blk and (only is None or only in blk):
            yield parse_state(blk)


def read_sim_trace(path):
    """Parse a -simulate file=... behaviour file into [(action_name, state_dict)]."""
    with open(path) as fh:
        txt = fh.read()
    out = []
    for m in re.finditer(r"\\\* <(\w+)[^>]*>\s*\nSTATE_\d+ ==\s*\n(.*?)(?=\n\\\*|\n====|\n\n\\\*|\Z)", txt, flags=re.S):
        out.append((m.group(1), parse_state(m.group(2))))
    return out


def to_tla(v):
    """Python value -> TLA+ text (ints, bools, str, tuples/lists=seq, sets, dict=record)."""
    if isinstance(v, bool):
        return "TRUE" if v else "FALSE"
    if isinstance(v, int):
        return str(v)
    if isinstance(v, str):
        return '"%s"' % v
    if isinstance(v, (list, tuple)):
        return "<<" + ", ".join(to_tla(x) for x in v) + ">>"
    if isinstance(v, (set, frozenset)):
        return "{" + ", ".join(sorted(to_tla(x) for x in v)) + "}"
    if isinstance(v, dict):
        return "[" + ", ".join("%s |-> %s" % (k, to_tla(x)) for k, x in v.items()) + "]"
    raise TypeError(type(v))


def sany(path):
    cmd = ["java", "-XX:+UseSerialGC", "-cp", JAR + ":" + DEPS, "tla2sany.SANY", path]
    p = subprocess.run(cmd, cwd=os.path.dirname(path), stdout=subprocess.PIPE,
                       stderr=subprocess.STDOUT, text=True)
    ok = p.returncode == 0 and "error" not in p.stdout.lower().replace("0 errors", "")
    return ok, p.stdout
