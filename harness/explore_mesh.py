"""Breadth-first exploration of the *real* Mesh under the operation alphabet of STMesh.tla,
and comparison of the resulting state graph with the one TLC dumps (DESIGN §4.3).

A BFS node is identified by its *view* (frozenset of leaf tuples) or, with ordered=True, by
the ordered tuple of leaves.  Every node keeps one shortest operation path; the real mesh is
rebuilt from the path whenever it is needed (about 1 ms).
"""
import multiprocessing as mp
import re

from . import meshlib as ml
from .tlc import parse_state


def enabled_ops(order, lay, ops):
    out = []
    S = order
    if "bisect" in ops:
        for k in S:
            for ax in (0, 1):
                if k[4 + ax] < lay.maxl:
                    out.append(("bisect", k, ax))
    if "both" in ops:
        for k in S:
            if k[4] < lay.maxl and k[5] < lay.maxl:
                out.append(("both", k))
    if "uniform" in ops and all(k[4] < lay.maxl and k[5] < lay.maxl for k in S):
        out.append(("uniform",))
    if "uspace" in ops and all(k[5] < lay.maxl for k in S):
        out.append(("uspace",))
    if "grade" in ops:
        out.append(("grade", lay.sigma))
    if "dorfler" in ops:
        import itertools
        L = list(S)
        # anisotropic: all pairs of marked sets with |Mt| + |Ms| <= 3 (as in STMesh.Next)
        for nt in range(0, 4):
            for ns in range(0, 4 - nt):
                if nt + ns == 0:
                    continue
                for Mt in itertools.combinations(L, nt):
                    if any(k[4] >= lay.maxl for k in Mt):
                        continue
                    for Ms in itertools.combinations(L, ns):
                        if any(k[5] >= lay.maxl for k in Ms):
                            continue
                        out.append(("mark_aniso", Mt, Ms))
        for n in (1, 2):
            for M in itertools.combinations(L, n):
                if all(k[4] < lay.maxl and k[5] < lay.maxl for k in M):
                    out.append(("mark_iso", M))
    return out


def _expand(args):
    lay, path, ops, ordered, leafcap = args
    try:
        mesh = ml.replay(lay, path)
    except Exception as ex:
        # the same history succeeded before (that is how this path was found): a fresh mesh object now behaves differently,
        # i.e. some state outlived the earlier mesh objects of this process
        return {"path": path, "order": None, "problems": [], "succ": [], "ev": None, "replay_exc": "%s: %s" % (type(ex).__name__, str(ex)[:120])}
    order, problems = ml.observe(mesh, lay)
    res = {"path": path, "order": order, "problems": problems, "succ": [], "ev": None}
    if order is None:
        return res
    ev = {"k": "reset", "exc": ""}
    ev.update(ml.measure(mesh, lay, True))
    res["ev"] = ev
    if ml.one_irregular(set(order), lay):
        res["problems"].append(("one-irregular", "levels of edge neighbours differ by more than one: %r"
                                % (ml.one_irregular(set(order), lay)[:2],)))
    for op in enabled_ops(order, lay, ops):
        exc = None
        try:
            m2 = ml.replay(lay, path)
        except Exception as ex:
            res["replay_exc"] = "%s: %s" % (type(ex).__name__, str(ex)[:120])
            break
        try:
            ml.apply_op(m2, lay, op)
        except AssertionError as ex:
            import traceback
            tb = traceback.extract_tb(ex.__traceback__)
            exc = "AssertionError at %s:%d" % (tb[-1].filename.split("/")[-1], tb[-1].lineno)
        except RecursionError:
            exc = "RecursionError"
        except Exception as ex:  # any failure of the call is an observable outcome
            exc = "%s: %s" % (type(ex).__name__, ex)
        post = None
        pp = []
        if exc is None:
            try:
                post = ml.project(m2, lay)
            except ml.ProjectionError as ex:
                if op[0] == "grade":
                    post = "out-of-model"   # graded mesh needs levels above MaxL: not an action of the bounded model
                else:
                    pp = [("dyadic-descent", str(ex))]
        res["succ"].append({"op": op, "exc": exc, "post": post, "problems": pp})
    return res


def explore(lay, ops, budget, ordered=False, procs=16, max_states=2_000_000):
    """Returns dict: states {id: order}, edges set((pre_id, post_id)), problems list,
    fails list of (path, op, exc)."""
    nroot = lay.Nt * lay.Nx
    ident = (lambda o: tuple(o)) if ordered else (lambda o: frozenset(o))
    seen = {}
    events = {}
    edges = set()
    problems = []
    fails = []
    replay_fails = []
    labelled = []        # (pre-state, marking operation, post-state): the graph itself carries no operation labels
    out_of_model = 0
    frontier = [()]
    first = True
    pool = mp.get_context("fork").Pool(procs) if procs > 1 else None
    try:
        while frontier:
            jobs = [(lay, p, ops, ordered, 0) for p in frontier]
            results = pool.map(_expand, jobs, chunksize=max(1, len(jobs) // (procs * 8))) if pool else list(map(_expand, jobs))
            nxt = []
            for r in results:
                if r.get("replay_exc"):
                    replay_fails.append((r["path"], r["replay_exc"]))
                if r["order"] is None:
                    problems.append((r["path"], r["problems"]))
                    continue
                sid = ident(r["order"])
                if first:
                    seen[sid] = (r["path"], r["order"])
                    first = False
                events[sid] = r["ev"]
                if r["problems"]:
                    problems.append((r["path"], r["problems"]))
                for s in r["succ"]:
                    if s["exc"] is not None:
                        fails.append((r["path"], s["op"], s["exc"]))
                        continue
                    if s["post"] == "out-of-model":
                        out_of_model += 1
                        continue
                    if s["post"] is None:
                        problems.append((r["path"] + (s["op"],), s["problems"]))
                        continue
                    pid = ident(s["post"])
                    edges.add((sid, pid))
                    if s["op"][0].startswith("mark"):
                        labelled.append((r["order"], s["op"], s["post"]))
                    if pid not in seen:
                        seen[pid] = (r["path"] + (s["op"],), s["post"])
                        # expand only states within the primitive-bisection budget
                        if len(s["post"]) <= nroot + budget:
                            nxt.append(r["path"] + (s["op"],))
                        else:
                            nxt_leaf = r["path"] + (s["op"],)
                            # over-budget states are still observed (not expanded)
                            nxt.append(("__observe_only__",) + nxt_leaf)
            # split observe-only jobs
            obs = [p[1:] for p in nxt if p and p[0] == "__observe_only__"]
            frontier = [p for p in nxt if not (p and p[0] == "__observe_only__")]
            if obs:
                jobs = [(lay, p, set(), ordered, 0) for p in obs]
                for r in (pool.map(_expand, jobs, chunksize=max(1, len(jobs) // (procs * 8))) if pool else map(_expand, jobs)):
                    if r["problems"]:
                        problems.append((r["path"], r["problems"]))
                    if r["order"] is not None:
                        events[ident(r["order"])] = r["ev"]
            if len(seen) > max_states:
                raise RuntimeError("state explosion")
    finally:
        if pool:
            pool.close()
            pool.join()
    return {"states": seen, "events": events, "edges": edges, "problems": problems, "fails": fails, "replay_fails": replay_fails, "labelled": labelled,
            "out_of_model": out_of_model}


# ------------------------------------------------------------------------------------
# the specification's graph from a TLC dot dump
# ------------------------------------------------------------------------------------
_NODE = re.compile(r'^(-?\d+) \[label="((?:[^"\\]|\\.)*)"', re.M)
_EDGE = re.compile(r'^(-?\d+) -> (-?\d+)', re.M)


def read_dot(path, ordered=False):
    with open(path) as fh:
        txt = fh.read()
    nodes = {}
    for m in _NODE.finditer(txt):
        lab = m.group(2).replace("\\n", "\n").replace('\\"', '"').replace("\\\\", "\\")
        st = parse_state(lab)
        order = tuple(ml.from_tla_leaf(r) for r in st["order"])
        nodes[m.group(1)] = (tuple(order) if ordered else frozenset(order), st)
    edges = set()
    for m in _EDGE.finditer(txt):
        a, b = m.group(1), m.group(2)
        if a in nodes and b in nodes:
            edges.add((nodes[a][0], nodes[b][0]))
    return nodes, edges
