"""Projection of the real `src.mesh.Mesh` onto the abstract state of spec/STMesh.tla and
independent (geometry-first) observation of everything C02 / C10 talk about.

Nothing here imports anything from /repo except the classes under test.
"""
import os
import sys
from fractions import Fraction

REPO = os.environ.get("STBEM_REPO", "/repo")
if REPO not in sys.path:
    sys.path.insert(0, REPO)


class Layout:
    """A tensor-product initial mesh: strictly increasing grids, glued or not."""

    def __init__(self, tgrid, xgrid, glue, maxl):
        self.tgrid = list(tgrid)
        self.xgrid = list(xgrid)
        self.Nt = len(self.tgrid) - 1
        self.Nx = len(self.xgrid) - 1
        self.glue = bool(glue)
        self.maxl = maxl
        self.U = 2 ** maxl
        self.sigma = 2

    @staticmethod
    def uniform(Nt, Nx, glue, maxl, frac=True):
        one = Fraction(1) if frac else 1.0
        return Layout([one * j for j in range(Nt + 1)], [one * i for i in range(Nx + 1)], glue, maxl)

    def key(self):
        return "%dx%d%s" % (self.Nt, self.Nx, "g" if self.glue else "o")

    def new_mesh(self):
        from src.mesh import Mesh
        return Mesh(glue_space=self.glue, initial_space_mesh=list(self.xgrid),
                    initial_time_mesh=list(self.tgrid))


class ProjectionError(Exception):
    """The real mesh has no image in the abstract state space (already a violation of C02)."""


def _locate(grid, a, b):
    """index k of the root interval [grid[k], grid[k+1]] containing [a, b]"""
    for k in range(len(grid) - 1):
        if grid[k] <= a and b <= grid[k + 1]:
            return k
    raise ProjectionError("interval (%r, %r) lies in no root interval" % (a, b))


def _dyadic(lo, hi, a, b, U, maxl):
    """(a, b) must be obtained from (lo, hi) by repeated midpoint bisection, computed the way
    the code computes midpoints ((p + q) / 2).  Returns (offset0, offset1, level) in units of
    (hi - lo) / U."""
    p, q, o0, o1, lvl = lo, hi, 0, U, 0
    while True:
        if p == a and q == b:
            return o0, o1, lvl
        if lvl >= maxl:
            raise ProjectionError("interval (%r, %r) is not a dyadic descendant of (%r, %r) up to level %d"
                                  % (a, b, lo, hi, maxl))
        m = (p + q) / 2
        om = (o0 + o1) // 2
        if b <= m:
            q, o1 = m, om
        elif a >= m:
            p, o0 = m, om
        else:
            raise ProjectionError("interval (%r, %r) straddles the midpoint of (%r, %r)" % (a, b, p, q))
        lvl += 1


def leaf_tuple(elem, lay):
    """(t0, t1, x0, x1, lt, lx) in the integer units of STMesh.tla, from geometry only."""
    ta, tb = elem.time_interval
    xa, xb = elem.space_interval
    j = _locate(lay.tgrid, ta, tb)
    i = _locate(lay.xgrid, xa, xb)
    t0, t1, lt = _dyadic(lay.tgrid[j], lay.tgrid[j + 1], ta, tb, lay.U, lay.maxl)
    x0, x1, lx = _dyadic(lay.xgrid[i], lay.xgrid[i + 1], xa, xb, lay.U, lay.maxl)
    return (j * lay.U + t0, j * lay.U + t1, i * lay.U + x0, i * lay.U + x1, lt, lx)


def project(mesh, lay):
    """ordered projection of mesh.leaf_elements"""
    return tuple(leaf_tuple(e, lay) for e in mesh.leaf_elements)


def leaf_map(mesh, lay):
    return {leaf_tuple(e, lay): e for e in mesh.leaf_elements}


# ------------------------------------------------------------------------------------
# independent reference definitions (the same rules as STMesh.tla, written separately)
# ------------------------------------------------------------------------------------
def over(a0, a1, b0, b1):
    return a0 < b1 and b0 < a1


def nbr_across(S, e, side, lay):
    t0, t1, x0, x1 = e[:4]
    L = lay.Nx * lay.U
    out = set()
    for f in S:
        if side == 1:
            ok = over(x0, x1, f[2], f[3]) and f[1] == t0
        elif side == 3:
            ok = over(x0, x1, f[2], f[3]) and f[0] == t1
        elif side == 2:
            ok = over(t0, t1, f[0], f[1]) and (f[2] == x1 or (lay.glue and x1 == L and f[2] == 0))
        else:
            ok = over(t0, t1, f[0], f[1]) and (f[3] == x0 or (lay.glue and x0 == 0 and f[3] == L))
        if ok:
            out.add(f)
    return out


def on_boundary(e, side, lay):
    L = lay.Nx * lay.U
    T = lay.Nt * lay.U
    if side == 1:
        return e[0] == 0
    if side == 3:
        return e[1] == T
    if side == 2:
        return e[3] == L and not lay.glue
    return e[2] == 0 and not lay.glue


def children(e, ax):
    t0, t1, x0, x1, lt, lx = e
    if ax == 0:
        m = (t0 + t1) // 2
        return ((t0, m, x0, x1, lt + 1, lx), (m, t1, x0, x1, lt + 1, lx))
    m = (x0 + x1) // 2
    return ((t0, t1, x0, m, lt, lx + 1), (t0, t1, m, x1, lt, lx + 1))


def closure(S, M, ax, lay):
    S = set(S)
    R = set(M)
    lv = 4 + ax
    while True:
        add = set()
        for f in R:
            for s in (1, 2, 3, 4):
                for g in nbr_across(S, f, s, lay):
                    if g[lv] < f[lv] and g not in R:
                        add.add(g)
        if not add:
            break
        R |= add
    out = S - R
    for f in R:
        out.update(children(f, ax))
    return frozenset(out)


# ------------------------------------------------------------------------------------
# observation of a real mesh: everything C02 and C10 state, at the public API
# ------------------------------------------------------------------------------------
def observe(mesh, lay, check_nbrs=True):
    """Returns (order_tuple, problems) where problems is a list of (clause, text)."""
    problems = []
    try:
        order = project(mesh, lay)
    except ProjectionError as ex:
        return None, [("dyadic-descent", str(ex))]
    S = set(order)
    elems = list(mesh.leaf_elements)
    if len(S) != len(order):
        problems.append(("tiling", "duplicate leaves"))
    # tiling: pairwise disjoint, total area
    area = 0
    for a in S:
        area += (a[1] - a[0]) * (a[3] - a[2])
    if area != lay.Nt * lay.U * lay.Nx * lay.U:
        problems.append(("tiling", "leaf areas sum to %d, cylinder has %d" % (area, lay.Nt * lay.Nx * lay.U ** 2)))
    L = sorted(S)
    for k, a in enumerate(L):
        for b in L[k + 1:]:
            if over(a[0], a[1], b[0], b[1]) and over(a[2], a[3], b[2], b[3]):
                problems.append(("tiling", "leaves %r and %r overlap" % (a, b)))
    # levels and parent chain say what the geometry says
    for e, k in zip(elems, order):
        if tuple(e.levels) != (k[4], k[5]):
            problems.append(("levels", "leaf %r carries levels %r" % (k, e.levels)))
        lt, lx, p, c = 0, 0, e.parent, e
        while p is not None:
            if c not in tuple(p.children):
                problems.append(("parent-chain", "leaf %r: ancestor does not list its child" % (k,)))
                break
            pt, px = p.time_interval, p.space_interval
            ct, cx = c.time_interval, c.space_interval
            if px == cx and (pt[0] == ct[0]) != (pt[1] == ct[1]) and pt[0] <= ct[0] and ct[1] <= pt[1] \
                    and (ct[0] == (pt[0] + pt[1]) / 2 or ct[1] == (pt[0] + pt[1]) / 2):
                lt += 1
            elif pt == ct and (px[0] == cx[0]) != (px[1] == cx[1]) and px[0] <= cx[0] and cx[1] <= px[1] \
                    and (cx[0] == (px[0] + px[1]) / 2 or cx[1] == (px[0] + px[1]) / 2):
                lx += 1
            else:
                problems.append(("parent-chain", "leaf %r: ancestor %r is not a bisection parent of %r" % (k, p, c)))
                break
            c, p = p, p.parent
        else:
            if c not in mesh.roots:
                problems.append(("parent-chain", "leaf %r: chain does not end in a root" % (k,)))
            if (lt, lx) != (k[4], k[5]):
                problems.append(("parent-chain", "leaf %r: parent chain has %r bisections" % (k, (lt, lx))))
    # leaf collection == childless elements reachable from the roots
    childless = []
    stack = list(mesh.roots)
    n_all = 0
    while stack:
        e = stack.pop()
        n_all += 1
        if e.children:
            stack.extend(e.children)
        else:
            childless.append(e)
    if set(map(id, childless)) != set(map(id, elems)):
        problems.append(("leaf-bookkeeping", "leaf_elements has %d entries, tree has %d childless elements"
                         % (len(elems), len(childless))))
    # element indices unique (over all elements of the tree)
    idx = []
    stack = list(mesh.roots)
    while stack:
        e = stack.pop()
        idx.append(e.glob_idx)
        stack.extend(e.children)
    if len(set(idx)) != len(idx):
        problems.append(("index-unique", "glob_idx values repeat"))
    # vertex uniqueness (seam copies allowed on glued meshes)
    seen = {}
    xl, xr = lay.xgrid[0], lay.xgrid[-1]
    for v in mesh.vertices:
        key = (v.t, v.x)
        seen[key] = seen.get(key, 0) + 1
    for key, n in seen.items():
        if n > 1:
            problems.append(("vertex-unique", "%d vertices at %r" % (n, key)))
    vidx = [v.idx for v in mesh.vertices]
    if vidx != list(range(len(vidx))):
        problems.append(("vertex-unique", "vertex indices are not 0..n-1"))
    # every leaf corner is a listed vertex
    vset = set(map(id, mesh.vertices))
    for e in elems:
        for v in e.vertices:
            if id(v) not in vset:
                problems.append(("vertex-unique", "corner %r of a leaf is not in mesh.vertices" % (v,)))
    # C10: neighbours across every edge of every leaf
    if check_nbrs:
        e2k = {id(e): k for e, k in zip(elems, order)}
        for e, k in zip(elems, order):
            for side in (1, 2, 3, 4):
                edge = e.edges[side - 1]
                want = nbr_across(S, k, side, lay)
                try:
                    got_elems = edge.neighbour_elements()
                except AssertionError:
                    problems.append(("nbr", "neighbour_elements() asserts on side %d of %r" % (side, k)))
                    continue
                got = []
                for g in got_elems:
                    if id(g) not in e2k:
                        problems.append(("nbr", "side %d of %r reports a non-leaf %r" % (side, k, g)))
                    else:
                        got.append(e2k[id(g)])
                if len(got) != len(set(got)) or set(got) != want:
                    problems.append(("nbr", "side %d of %r: reported %r, geometric %r" % (side, k, sorted(got), sorted(want))))
                if len(got_elems) > 2:
                    problems.append(("nbr", "side %d of %r: more than two neighbours" % (side, k)))
                bd = on_boundary(k, side, lay)
                if bool(edge.on_boundary and not edge.glued) != bd:
                    problems.append(("nbr-flag", "side %d of %r: on_boundary=%r glued=%r, geometry says boundary=%r"
                                     % (side, k, edge.on_boundary, edge.glued, bd)))
                if bd and got_elems:
                    problems.append(("nbr-flag", "boundary side %d of %r has neighbours" % (side, k)))
                if not bd and not got_elems:
                    problems.append(("nbr-flag", "interior side %d of %r has no neighbour" % (side, k)))
    return order, problems


def one_irregular(S, lay):
    bad = []
    for e in S:
        for s in (1, 2, 3, 4):
            for f in nbr_across(S, e, s, lay):
                if abs(e[4] - f[4]) > 1 or abs(e[5] - f[5]) > 1:
                    bad.append((e, f))
    return bad


# ------------------------------------------------------------------------------------
# operations (the alphabet shared with the specification)
# ------------------------------------------------------------------------------------
FORMS = ("c", "fortran", "transposed-view", "strided-view", "readonly")


def indicator_form(a, form):
    """the same indicator values as another legal ndarray: memory layout, view, flags"""
    import numpy as np
    if form == "c":
        return a
    if form == "fortran":
        return np.asfortranarray(a)
    if form == "transposed-view":
        return np.ascontiguousarray(a.T).T
    if form == "strided-view":
        big = np.zeros(tuple(2 * n for n in a.shape))
        big[tuple(slice(None, None, 2) for _ in a.shape)] = a
        return big[tuple(slice(None, None, 2) for _ in a.shape)]
    if form == "readonly":
        b = a.copy()
        b.setflags(write=False)
        return b
    raise ValueError(form)


def apply_op(mesh, lay, op):
    """op = ("bisect", leaf, ax) | ("both", leaf) | ("uniform",) | ("uspace",) | ("grade", sigma)
           | ("dorfler_iso", eta_list, theta) | ("dorfler_aniso", eta_pairs, theta)
    Executes the *real* call.  Exceptions propagate."""
    import io
    import contextlib
    import numpy as np
    kind = op[0]
    buf = io.StringIO()
    with contextlib.redirect_stdout(buf):
        if kind == "bisect":
            e = leaf_map(mesh, lay)[tuple(op[1])]
            mesh.refine_axis(e, op[2]) if False else (mesh.refine_time(e) if op[2] == 0 else mesh.refine_space(e))
        elif kind == "both":
            e = leaf_map(mesh, lay)[tuple(op[1])]
            mesh.refine(e)
        elif kind == "uniform":
            mesh.uniform_refine()
        elif kind == "uspace":
            mesh.uniform_refine_space()
        elif kind == "grade":
            mesh.refine_grading(sigma=op[1], K=4)
        elif kind == "dorfler_iso":
            mesh.dorfler_refine_isotropic(indicator_form(np.array(op[1], dtype=float), op[3] if len(op) > 3 else "c"), op[2])
        elif kind == "dorfler_aniso":
            mesh.dorfler_refine_anisotropic(indicator_form(np.array(op[1], dtype=float).reshape(-1, 2), op[3] if len(op) > 3 else "c"), op[2])
        elif kind in ("mark_iso", "mark_aniso"):
            # realise given marked sets through indicators: 1 on the marked contributions,
            # 2^-40 elsewhere, theta^2 * total strictly between m - 1 and m
            order = project(mesh, lay)
            tiny = 2.0 ** -40
            if kind == "mark_iso":
                M = set(map(tuple, op[1]))
                eta = np.array([1.0 if k in M else tiny for k in order])
                m = len(M)
                theta = float(np.sqrt((m - 0.5) / eta.sum()))
                mesh.dorfler_refine_isotropic(eta, theta)
            else:
                Mt, Ms = set(map(tuple, op[1])), set(map(tuple, op[2]))
                eta = np.array([[1.0 if k in Mt else tiny, 1.0 if k in Ms else tiny] for k in order])
                m = len(Mt) + len(Ms)
                theta = float(np.sqrt((m - 0.5) / eta.sum()))
                mesh.dorfler_refine_anisotropic(eta, theta)
        else:
            raise ValueError(kind)


def replay(lay, ops):
    mesh = lay.new_mesh()
    for op in ops:
        apply_op(mesh, lay, op)
    return mesh


def tla_leaf(k):
    return "[t0 |-> %d, t1 |-> %d, x0 |-> %d, x1 |-> %d, lt |-> %d, lx |-> %d]" % tuple(k)


def from_tla_leaf(r):
    return (r["t0"], r["t1"], r["x0"], r["x1"], r["lt"], r["lx"])


# ------------------------------------------------------------------------------------
# measurement for the TLC judge: raw observations, no judgement
# ------------------------------------------------------------------------------------
def measure(mesh, lay, with_nbrs=True):
    """Event fields `post`, `nb`, `bd`, `book` of TraceSTMesh.tla.  Raises ProjectionError
    if a leaf has no image in the abstract state space."""
    order = project(mesh, lay)
    elems = list(mesh.leaf_elements)
    ev = {"post": [list(k) for k in order]}
    idx_of = {id(e): i + 1 for i, e in enumerate(elems)}
    book = {}
    # levels carried by the leaves
    book["levels"] = all(tuple(e.levels) == (k[4], k[5]) for e, k in zip(elems, order))
    # parent chain: each ancestor lists the child, is a bisection parent, ends in a root
    ok_chain = True
    for e, k in zip(elems, order):
        lt, lx, c, p = 0, 0, e, e.parent
        while p is not None and ok_chain:
            if not any(c is ch for ch in p.children):
                ok_chain = False
                break
            pt, px, ct, cx = p.time_interval, p.space_interval, c.time_interval, c.space_interval
            if px == cx and (ct == (pt[0], (pt[0] + pt[1]) / 2) or ct == ((pt[0] + pt[1]) / 2, pt[1])):
                lt += 1
            elif pt == ct and (cx == (px[0], (px[0] + px[1]) / 2) or cx == ((px[0] + px[1]) / 2, px[1])):
                lx += 1
            else:
                ok_chain = False
                break
            c, p = p, p.parent
        if ok_chain and (not any(c is r for r in mesh.roots) or (lt, lx) != (k[4], k[5])):
            ok_chain = False
    book["parent-chain"] = ok_chain
    # leaf collection = childless elements of the tree; indices unique
    childless, idx, stack = [], [], list(mesh.roots)
    while stack:
        e = stack.pop()
        idx.append(getattr(e, "glob_idx", None))
        if e.children:
            stack.extend(e.children)
        else:
            childless.append(e)
    book["leaf-bookkeeping"] = set(map(id, childless)) == set(map(id, elems)) and len(childless) == len(elems)
    book["index-unique"] = None not in idx and len(set(idx)) == len(idx)
    # vertices: unique coordinates, consecutive indices, all leaf corners registered
    coords = [(v.t, v.x) for v in mesh.vertices]
    vset = set(map(id, mesh.vertices))
    book["vertex-unique"] = (len(set(coords)) == len(coords)
                             and [v.idx for v in mesh.vertices] == list(range(len(coords)))
                             and all(id(v) in vset for e in elems for v in e.vertices))
    # gmsh() lists exactly the leaves and vertices
    try:
        g = mesh.gmsh().split("\n")
        nn = int(g[g.index("$Nodes") + 1])
        ne = int(g[g.index("$Elements") + 1])
        book["gmsh-consistent"] = nn == len(mesh.vertices) and ne == len(elems)
    except Exception:
        book["gmsh-consistent"] = False
    ev["book"] = book
    if with_nbrs:
        nb, bd = [], []
        for e in elems:
            row, flags = [], []
            for side in (1, 2, 3, 4):
                edge = e.edges[side - 1]
                try:
                    got = edge.neighbour_elements()
                    row.append([idx_of.get(id(g), 0) for g in got])
                    # the caller owns the list it was handed (the driver extends such lists in place): extending it must
                    # not show in any later answer
                    if isinstance(got, list):
                        got += [e, e, e]
                except AssertionError:
                    row.append([0, 0, 0])     # index 0 never matches: judged as a wrong neighbour list
                flags.append(bool(edge.on_boundary and not edge.glued))
            nb.append(row)
            bd.append(flags)
        ev["nb"] = nb
        ev["bd"] = bd
    return ev
